/* Harness for CC_Array and CC_Stack. Handles: h0..h7 arrays, s0..s7 stacks, i0..i7 iterators, z0..z3 zip
 * iterators. Elements are machine words. pred = even, cmp = by value/16, cp = +1000, reduce fn = a*31+b. */
#include "common.h"
#include "cc_array.c"
#include "cc_stack.c"

#define NH 8
static CC_Array *H[NH]; static CC_Stack *S[NH];
static struct { CC_ArrayIter it; int on; int h; } I[NH];
static struct { CC_ArrayZipIter it; int on; } Z[NH];
static struct { CC_StackIter it; int on; } SI[NH];
static struct { CC_StackZipIter it; int on; } SZ[NH];

static bool pred_even(const void *e) { return ((uintptr_t)e % 2) == 0; }
static int cmp16(const void *a, const void *b) { uintptr_t x = (uintptr_t)a / 16, y = (uintptr_t)b / 16; return (x > y) ? 5 : (x < y) ? -3 : 0; }   /* legal comparators need not return -1/0/1 */
static int cmp_sort(const void *a, const void *b) { uintptr_t x = *(uintptr_t*)a, y = *(uintptr_t*)b; return (x > y) ? 5 : (x < y) ? -3 : 0; }   /* legal comparators need not return -1/0/1 */
static void *cp1000(void *e) { return (void*)((uintptr_t)e + 1000); }
static void red(void *a, void *b, void *r) { *(uintptr_t*)r = (a == r ? *(uintptr_t*)r : (uintptr_t)a) * 31 + (uintptr_t)b; }
static char vlog[4096]; static size_t vlen;
static void visit(void *e) { vlen += snprintf(vlog + vlen, sizeof vlog - vlen, "%s%llu", vlen ? " " : "", (unsigned long long)(uintptr_t)e); }

#define V(x) ((void*)(uintptr_t)(x))
#define U(p) ((unsigned long long)(uintptr_t)(p))

static void obs(void) {
    printf(" |");
    for (int k = 0; k < NH; k++) if (H[k]) {
        printf(" h%d:[%zu;", k, cc_array_capacity(H[k]));
        for (size_t i = 0; i < cc_array_size(H[k]); i++) { void *e; cc_array_get_at(H[k], i, &e); printf("%s%llu", i ? " " : "", U(e)); }
        printf("]");
    }
    for (int k = 0; k < NH; k++) if (S[k]) {
        /* public API only: size, peek; contents through the stack iterator */
        printf(" s%d:[", k); CC_StackIter it; cc_stack_iter_init(&it, S[k]); void *e; int first = 1;
        while (cc_stack_iter_next(&it, &e) != CC_ITER_END) { printf("%s%llu", first ? "" : " ", U(e)); first = 0; }
        printf("]#%zu", cc_stack_size(S[k]));
    }
    vf_ledger();
}
static void conf_from(int argc, char **argv, CC_ArrayConf *c, int *dflt) {
    cc_array_conf_init(c); *dflt = 0;
    for (int i = 0; i < argc; i++) {
        if (!strncmp(argv[i], "cap=", 4)) c->capacity = vf_num(argv[i] + 4);
        else if (!strncmp(argv[i], "ef=", 3)) { unsigned long long n = 2, d = 1; sscanf(argv[i] + 3, "%llu/%llu", &n, &d); c->exp_factor = (float)n / (float)d; }
        else if (!strcmp(argv[i], "mem=conf")) { c->mem_alloc = vf_conf_malloc; c->mem_calloc = vf_conf_calloc; c->mem_free = vf_conf_free; }
        else if (!strcmp(argv[i], "default")) *dflt = 1;
        else if (!strncmp(argv[i], "plan=", 5)) vf_set_plan(argv[i] + 5);
    }
}
static void run_trace_header(int argc, char **argv) {
    CC_ArrayConf c; int dflt, stack = 0;
    conf_from(argc, argv, &c, &dflt);
    for (int i = 3; i < argc; i++) if (!strcmp(argv[i], "kind=stack")) stack = 1;
    enum cc_stat s;
    if (stack) s = VF_OUT(S[0], dflt ? cc_stack_new(&S[0]) : cc_stack_new_conf(&c, &S[0]));
    else s = VF_OUT(H[0], dflt ? cc_array_new(&H[0]) : cc_array_new_conf(&c, &H[0]));
    if (s != CC_OK) { H[0] = NULL; S[0] = NULL; }
    printf("new %s", vf_stat(s)); obs();
}
static int hnum(const char *t, char k) { return (t[0] == k && t[1] >= '0' && t[1] < '0' + NH && !t[2]) ? t[1] - '0' : -1; }

static void array_op(int h, int argc, char **a) {   /* a[0] = op */
    CC_Array *ar = H[h]; const char *op = a[0]; enum cc_stat s; void *out = V(0xDEAD);
    if (!ar) { printf("%s nohandle", op); return; }
#define A1 vf_num(a[1])
#define A2 vf_num(a[2])
    if (!strcmp(op, "add")) { s = cc_array_add(ar, V(A1)); printf("add %s", vf_stat(s)); }
    else if (!strcmp(op, "add_at")) { s = cc_array_add_at(ar, V(A1), A2); printf("add_at %s", vf_stat(s)); }
    else if (!strcmp(op, "replace_at")) { s = cc_array_replace_at(ar, V(A1), A2, &out); printf("replace_at %s", vf_stat(s)); if (s == CC_OK) printf(" %llu", U(out)); }
    else if (!strcmp(op, "swap_at")) { s = cc_array_swap_at(ar, A1, A2); printf("swap_at %s", vf_stat(s)); }
    else if (!strcmp(op, "remove")) { s = cc_array_remove(ar, V(A1), &out); printf("remove %s", vf_stat(s)); if (s == CC_OK) printf(" %llu", U(out)); }
    else if (!strcmp(op, "remove_at")) { s = cc_array_remove_at(ar, A1, &out); printf("remove_at %s", vf_stat(s)); if (s == CC_OK) printf(" %llu", U(out)); }
    else if (!strcmp(op, "remove_last")) { s = cc_array_remove_last(ar, &out); printf("remove_last %s", vf_stat(s)); if (s == CC_OK) printf(" %llu", U(out)); }
    else if (!strcmp(op, "remove_all")) { cc_array_remove_all(ar); printf("remove_all OK"); }
    else if (!strcmp(op, "get_at")) { s = cc_array_get_at(ar, A1, &out); printf("get_at %s", vf_stat(s)); if (s == CC_OK) printf(" %llu", U(out)); }
    else if (!strcmp(op, "get_last")) { s = cc_array_get_last(ar, &out); printf("get_last %s", vf_stat(s)); if (s == CC_OK) printf(" %llu", U(out)); }
    else if (!strcmp(op, "index_of")) { size_t ix = 777; s = cc_array_index_of(ar, V(A1), &ix); printf("index_of %s", vf_stat(s)); if (s == CC_OK) printf(" %zu", ix); }
    else if (!strcmp(op, "contains")) { printf("contains OK %zu", cc_array_contains(ar, V(A1))); }
    else if (!strcmp(op, "contains_value")) { printf("contains_value OK %zu", cc_array_contains_value(ar, V(A1), cmp16)); }
    else if (!strcmp(op, "reverse")) { cc_array_reverse(ar); printf("reverse OK"); }
    else if (!strcmp(op, "filter_mut")) { s = cc_array_filter_mut(ar, pred_even); printf("filter_mut %s", vf_stat(s)); }
    else if (!strcmp(op, "trim")) { s = cc_array_trim_capacity(ar); printf("trim %s", vf_stat(s)); }
    else if (!strcmp(op, "size")) { printf("size OK %zu", cc_array_size(ar)); }
    else if (!strcmp(op, "map")) { vlen = 0; vlog[0] = 0; cc_array_map(ar, visit); printf("map OK [%s]", vlog); }
    else if (!strcmp(op, "reduce")) { uintptr_t r = 7; cc_array_reduce(ar, red, &r); printf("reduce OK %llu", (unsigned long long)r); }
    else if (!strcmp(op, "sort")) { cc_array_sort(ar, cmp_sort); printf("sort OK"); }
    else if (!strcmp(op, "destroy")) { cc_array_destroy(ar); H[h] = NULL; for (int k = 0; k < NH; k++) if (I[k].on && I[k].h == h) I[k].on = 0; printf("destroy OK"); }
    else if (!strcmp(op, "destroy_cb")) { vlen = 0; vlog[0] = 0; cc_array_destroy_cb(ar, visit); H[h] = NULL; printf("destroy_cb OK [%s]", vlog); }
    else printf("%s badop", op);
}
static void stack_op(int h, int argc, char **a) {
    CC_Stack *st = S[h]; const char *op = a[0]; enum cc_stat s; void *out = V(0xDEAD);
    if (!st) { printf("%s nohandle", op); return; }
    if (!strcmp(op, "push")) { s = cc_stack_push(st, V(A1)); printf("push %s", vf_stat(s)); }
    else if (!strcmp(op, "pop")) { s = cc_stack_pop(st, &out); printf("pop %s", vf_stat(s)); if (s == CC_OK) printf(" %llu", U(out)); }
    else if (!strcmp(op, "peek")) { s = cc_stack_peek(st, &out); printf("peek %s", vf_stat(s)); if (s == CC_OK) printf(" %llu", U(out)); }
    else if (!strcmp(op, "size")) { printf("size OK %zu", cc_stack_size(st)); }
    else if (!strcmp(op, "map")) { vlen = 0; vlog[0] = 0; cc_stack_map(st, visit); printf("map OK [%s]", vlog); }
    else if (!strcmp(op, "filter_mut")) { s = cc_stack_filter_mut(st, pred_even); printf("filter_mut %s", vf_stat(s)); }
    else if (!strcmp(op, "destroy")) { cc_stack_destroy(st); S[h] = NULL; printf("destroy OK"); }
    else if (!strcmp(op, "destroy_cb")) { vlen = 0; vlog[0] = 0; cc_stack_destroy_cb(st, visit); S[h] = NULL; printf("destroy_cb OK [%s]", vlog); }
    else printf("%s badop", op);
}
static void run_op(int argc, char **argv) {
    int h, d; enum cc_stat s; void *o1 = V(0xDEAD), *o2 = V(0xDEAD);
    /* derived: "h1 = h0 subarray b e" | "h1 = h0 copy_shallow|copy_deep|filter" | "s1 = s0 filter"; iterators: "i0 = h0 iter", "z0 = h0 h1 zip" */
    if (argc >= 4 && !strcmp(argv[1], "=")) {
        if ((d = hnum(argv[0], 'h')) >= 0 && (h = hnum(argv[2], 'h')) >= 0 && H[h] && !H[d]) {
            CC_Array *out = VF_SENT; const char *op = argv[3];
            if (!strcmp(op, "subarray") && argc > 5) s = cc_array_subarray(H[h], vf_num(argv[4]), vf_num(argv[5]), &out);
            else if (!strcmp(op, "copy_shallow")) s = cc_array_copy_shallow(H[h], &out);
            else if (!strcmp(op, "copy_deep")) s = cc_array_copy_deep(H[h], cp1000, &out);
            else if (!strcmp(op, "filter")) s = cc_array_filter(H[h], pred_even, &out);
            else { printf("badop"); return; }
            s = vf_out_check(s, (void**)&out);
            if (s == CC_OK) H[d] = out;
            printf("%s %s", op, vf_stat(s)); obs(); return;
        }
        if ((d = hnum(argv[0], 's')) >= 0 && (h = hnum(argv[2], 's')) >= 0 && S[h] && !S[d] && !strcmp(argv[3], "filter")) {
            CC_Stack *out = VF_SENT; s = vf_out_check(cc_stack_filter(S[h], pred_even, &out), (void**)&out);
            if (s == CC_OK) S[d] = out;
            printf("filter %s", vf_stat(s)); obs(); return;
        }
        if ((d = hnum(argv[0], 'i')) >= 0 && (h = hnum(argv[2], 'h')) >= 0 && H[h] && !strcmp(argv[3], "iter")) {
            cc_array_iter_init(&I[d].it, H[h]); I[d].on = 1; I[d].h = h; printf("iter OK"); obs(); return;
        }
        if ((d = hnum(argv[0], 'i')) >= 0 && (h = hnum(argv[2], 's')) >= 0 && S[h] && !strcmp(argv[3], "iter")) {
            cc_stack_iter_init(&SI[d].it, S[h]); SI[d].on = 1; I[d].on = 0; printf("iter OK"); obs(); return;
        }
        int h2;
        if ((d = hnum(argv[0], 'z')) >= 0 && argc >= 5 && (h = hnum(argv[2], 'h')) >= 0 && (h2 = hnum(argv[3], 'h')) >= 0 && H[h] && H[h2] && !strcmp(argv[4], "zip")) {
            cc_array_zip_iter_init(&Z[d].it, H[h], H[h2]); Z[d].on = 1; SZ[d].on = 0; printf("zip OK"); obs(); return;
        }
        if ((d = hnum(argv[0], 'z')) >= 0 && argc >= 5 && (h = hnum(argv[2], 's')) >= 0 && (h2 = hnum(argv[3], 's')) >= 0 && S[h] && S[h2] && !strcmp(argv[4], "zip")) {
            cc_stack_zip_iter_init(&SZ[d].it, S[h], S[h2]); SZ[d].on = 1; Z[d].on = 0; printf("zip OK"); obs(); return;
        }
        printf("skip"); obs(); return;
    }
    if (argc >= 2 && (h = hnum(argv[0], 'h')) >= 0) { array_op(h, argc - 1, argv + 1); obs(); return; }
    if (argc >= 2 && (h = hnum(argv[0], 's')) >= 0) { stack_op(h, argc - 1, argv + 1); obs(); return; }
    if (argc >= 2 && (h = hnum(argv[0], 'i')) >= 0 && I[h].on) {
        const char *op = argv[1]; CC_ArrayIter *it = &I[h].it;
        if (!strcmp(op, "next")) { s = cc_array_iter_next(it, &o1); printf("next %s", vf_stat(s)); if (s == CC_OK) printf(" %llu", U(o1)); }
        else if (!strcmp(op, "remove")) { s = cc_array_iter_remove(it, &o1); printf("remove %s", vf_stat(s)); if (s == CC_OK) printf(" %llu", U(o1)); }
        else if (!strcmp(op, "add")) { s = cc_array_iter_add(it, V(vf_num(argv[2]))); printf("add %s", vf_stat(s)); }
        else if (!strcmp(op, "replace")) { s = cc_array_iter_replace(it, V(vf_num(argv[2])), &o1); printf("replace %s", vf_stat(s)); if (s == CC_OK) printf(" %llu", U(o1)); }
        else if (!strcmp(op, "index")) { printf("index OK %zu", cc_array_iter_index(it)); }
        else printf("badop");
        obs(); return;
    }
    if (argc >= 2 && (h = hnum(argv[0], 'i')) >= 0 && SI[h].on) {
        const char *op = argv[1]; CC_StackIter *it = &SI[h].it;
        if (!strcmp(op, "next")) { s = cc_stack_iter_next(it, &o1); printf("next %s", vf_stat(s)); if (s == CC_OK) printf(" %llu", U(o1)); }
        else if (!strcmp(op, "replace")) { s = cc_stack_iter_replace(it, V(vf_num(argv[2])), &o1); printf("replace %s", vf_stat(s)); if (s == CC_OK) printf(" %llu", U(o1)); }
        else printf("badop");
        obs(); return;
    }
    if (argc >= 2 && (h = hnum(argv[0], 'z')) >= 0 && Z[h].on) {
        const char *op = argv[1]; CC_ArrayZipIter *it = &Z[h].it;
        if (!strcmp(op, "next")) { s = cc_array_zip_iter_next(it, &o1, &o2); printf("next %s", vf_stat(s)); if (s == CC_OK) printf(" %llu %llu", U(o1), U(o2)); }
        else if (!strcmp(op, "remove")) { s = cc_array_zip_iter_remove(it, &o1, &o2); printf("remove %s", vf_stat(s)); if (s == CC_OK) printf(" %llu %llu", U(o1), U(o2)); }
        else if (!strcmp(op, "add")) { s = cc_array_zip_iter_add(it, V(vf_num(argv[2])), V(vf_num(argv[3]))); printf("add %s", vf_stat(s)); }
        else if (!strcmp(op, "replace")) { s = cc_array_zip_iter_replace(it, V(vf_num(argv[2])), V(vf_num(argv[3])), &o1, &o2); printf("replace %s", vf_stat(s)); if (s == CC_OK) printf(" %llu %llu", U(o1), U(o2)); }
        else if (!strcmp(op, "index")) { printf("index OK %zu", cc_array_zip_iter_index(it)); }
        else printf("badop");
        obs(); return;
    }
    if (argc >= 2 && (h = hnum(argv[0], 'z')) >= 0 && SZ[h].on) {
        const char *op = argv[1]; CC_StackZipIter *it = &SZ[h].it;
        if (!strcmp(op, "next")) { s = cc_stack_zip_iter_next(it, &o1, &o2); printf("next %s", vf_stat(s)); if (s == CC_OK) printf(" %llu %llu", U(o1), U(o2)); }
        else if (!strcmp(op, "replace")) { s = cc_stack_zip_iter_replace(it, V(vf_num(argv[2])), V(vf_num(argv[3])), &o1, &o2); printf("replace %s", vf_stat(s)); if (s == CC_OK) printf(" %llu %llu", U(o1), U(o2)); }
        else printf("badop");
        obs(); return;
    }
    printf("skip"); obs();
}
static void run_trace_end(void) {
    for (int k = 0; k < NH; k++) { if (H[k]) { cc_array_destroy(H[k]); H[k] = NULL; } if (S[k]) { cc_stack_destroy(S[k]); S[k] = NULL; } }
    printf("end |"); vf_ledger();
}
