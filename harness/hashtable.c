/* Harness for CC_HashTable and CC_HashSet (white box only for `threshold`, which has no accessor).
 *
 * T <id> hashtable <table|set> [default] [cap=N] [lf=NUM/DEN] [hash=string|general|pointer|const0|mod4|id]
 *                  [keys=ptr|str|blk] [seed=N] [mem=conf|libc] [pool=k,k,...] [plan=BITS]
 * A key word w (0 = NULL) denotes: keys=ptr the pointer value w itself (identity comparison);
 * keys=str a NUL-terminated string "k<w mod 1000>" interned per key WORD (so w and w+1000 are two
 * different pointers to equal strings, compared with cc_common_cmp_str); keys=blk an 8-byte block
 * holding w mod 1000, interned per key word, compared with memcmp (fixed key length 8).
 * Every enumeration is sorted before printing: the order of a hash table is unspecified. */
#include "common.h"
#include "cc_common.c"
#include "cc_array.c"
#undef DEFAULT_CAPACITY
#undef DEFAULT_EXPANSION_FACTOR
#include "cc_hashtable.c"
#include "cc_hashset.c"

enum { K_PTR, K_STR, K_BLK };
static int is_set = 0, keykind = K_PTR;
static size_t klen = 8;      /* keys=blk: the fixed key length in bytes (header klen=N, 1..16); bytes beyond it differ between aliases */
static CC_HashTable *ht = NULL;
static CC_HashSet *hs = NULL;

/* ------------------------------------------------------------ key interning */
#define MAXKEYS 512
static unsigned long long kw_word[MAXKEYS];
static union { char s[24]; uint64_t b; } kw_store[MAXKEYS];
static size_t kw_n = 0;

static void *key_of(unsigned long long w) {
    if (w == 0) return NULL;
    if (keykind == K_PTR) return (void *)(uintptr_t)w;
    for (size_t i = 0; i < kw_n; i++) if (kw_word[i] == w) return &kw_store[i];
    if (kw_n == MAXKEYS) vf_die("too many keys");
    kw_word[kw_n] = w;
    if (keykind == K_STR) snprintf(kw_store[kw_n].s, sizeof kw_store[kw_n].s, "k%llu", w % 1000);
    else { memset(kw_store[kw_n].s, w >= 1000 ? 0x55 : 0xAA, sizeof kw_store[kw_n].s);
           for (size_t i = 0; i < klen; i++) kw_store[kw_n].s[i] = (char)(i < 8 ? ((w % 1000) >> (8 * i)) & 0xFF : 0); }
    return &kw_store[kw_n++];
}
static unsigned long long word_of(const void *p) {
    if (!p) return 0;
    if (keykind == K_PTR) return (unsigned long long)(uintptr_t)p;
    for (size_t i = 0; i < kw_n; i++) if ((const void *)&kw_store[i] == p) return kw_word[i];
    vf_die("table returned a key pointer that was never stored");
    return 0;
}
/* canonical number of a (non-NULL) key, computed from what the pointer denotes */
static uint64_t canon(const void *p) {
    if (keykind == K_PTR) return (uint64_t)(uintptr_t)p;
    if (keykind == K_STR) return strtoull((const char *)p + 1, NULL, 10);
    { uint64_t v = 0; for (size_t i = 0; i < klen && i < 8; i++) v |= (uint64_t)((const unsigned char *)p)[i] << (8 * i); return v; }
}
static size_t h_const0(const void *k, int l, uint32_t s) { (void)k; (void)l; (void)s; return 0; }
static size_t h_mod4(const void *k, int l, uint32_t s) { (void)l; (void)s; return (size_t)(canon(k) % 4); }
static size_t h_id(const void *k, int l, uint32_t s) { (void)l; (void)s; return (size_t)canon(k); }
static int cmp_ptr(const void *a, const void *b) { return a == b ? 0 : ((uintptr_t)a < (uintptr_t)b ? -1 : 1); }
static int cmp_blk(const void *a, const void *b) { return memcmp(a, b, klen); }

/* ------------------------------------------------------------ sorted printing */
typedef struct { unsigned long long k, v; } kv;
static int kv_cmp(const void *a, const void *b) {
    const kv *x = a, *y = b;
    if (x->k != y->k) return x->k < y->k ? -1 : 1;
    if (x->v != y->v) return x->v < y->v ? -1 : 1;
    return 0;
}
static int u_cmp(const void *a, const void *b) {
    unsigned long long x = *(const unsigned long long *)a, y = *(const unsigned long long *)b;
    return x < y ? -1 : x > y;
}
#define MAXE 4096
static kv pairs[MAXE]; static size_t npairs;
static unsigned long long words[MAXE]; static size_t nwords;
static void print_pairs(void) {
    qsort(pairs, npairs, sizeof pairs[0], kv_cmp);
    printf("[");
    for (size_t i = 0; i < npairs; i++) {
        if (is_set) printf("%s%llu", i ? " " : "", pairs[i].k);
        else printf("%s%llu:%llu", i ? " " : "", pairs[i].k, pairs[i].v);
    }
    printf("]");
}
static void print_words(void) {
    qsort(words, nwords, sizeof words[0], u_cmp);
    printf("[");
    for (size_t i = 0; i < nwords; i++) printf("%s%llu", i ? " " : "", words[i]);
    printf("]");
}
static void push_word(unsigned long long w) { if (nwords == MAXE) vf_die("enumeration too long"); words[nwords++] = w; }
static void push_pair(unsigned long long k, unsigned long long v) { if (npairs == MAXE) vf_die("enumeration too long"); pairs[npairs].k = k; pairs[npairs].v = v; npairs++; }
static void cb_key(const void *k) { push_word(word_of(k)); }
static void cb_val(void *v) { push_word((unsigned long long)(uintptr_t)v); }

/* ------------------------------------------------------------ observation */
static unsigned long long pool[64]; static size_t npool = 0;

static void obs(void) {
    CC_HashTable *t = is_set ? hs->table : ht;
    printf(" | size=%zu it=", is_set ? cc_hashset_size(hs) : cc_hashtable_size(ht));
    npairs = 0;
    if (is_set) {
        CC_HashSetIter it; void *k;
        cc_hashset_iter_init(&it, hs);
        while (cc_hashset_iter_next(&it, &k) != CC_ITER_END) push_pair(word_of(k), 1);
    } else {
        CC_HashTableIter it; TableEntry *e;
        cc_hashtable_iter_init(&it, ht);
        while (cc_hashtable_iter_next(&it, &e) != CC_ITER_END) push_pair(word_of(e->key), (unsigned long long)(uintptr_t)e->value);
    }
    print_pairs();
    printf(" get=[");
    for (size_t i = 0; i < npool; i++) {
        void *k = key_of(pool[i]);
        if (is_set) printf("%s%d", i ? " " : "", (int)cc_hashset_contains(hs, k));
        else {
            void *out = (void *)(uintptr_t)0xDEADBEEF;
            enum cc_stat s = cc_hashtable_get(ht, k, &out);
            bool c = cc_hashtable_contains_key(ht, k);
            if (c != (s == CC_OK)) printf("%s!contains-disagrees-with-get", i ? " " : "");
            else if (s == CC_OK) printf("%s%llu", i ? " " : "", (unsigned long long)(uintptr_t)out);
            else printf("%s-", i ? " " : "");
        }
    }
    printf("]");
    vf_ledger();
    printf(" #cap=%zu thr=%zu", is_set ? cc_hashset_capacity(hs) : cc_hashtable_capacity(ht), t->threshold);
}

static const char *opt(int argc, char **argv, const char *name) {
    size_t n = strlen(name);
    for (int i = 3; i < argc; i++) if (!strncmp(argv[i], name, n) && argv[i][n] == '=') return argv[i] + n + 1;
    return NULL;
}
static int flag(int argc, char **argv, const char *name) {
    for (int i = 3; i < argc; i++) if (!strcmp(argv[i], name)) return 1;
    return 0;
}

static void run_trace_header(int argc, char **argv) {
    is_set = !strcmp(argv[3], "set");
    int dflt = flag(argc, argv, "default");
    CC_HashTableConf conf;
    if (is_set) cc_hashset_conf_init(&conf); else cc_hashtable_conf_init(&conf);
    const char *o;
    keykind = K_STR;                                   /* the default configuration: string keys */
    const char *hk = "string";
    int use_conf = 0;
    if (!dflt) {
        if ((o = opt(argc, argv, "keys"))) keykind = !strcmp(o, "ptr") ? K_PTR : !strcmp(o, "blk") ? K_BLK : K_STR;
        if ((o = opt(argc, argv, "cap"))) conf.initial_capacity = vf_num(o);
        if ((o = opt(argc, argv, "lf"))) { unsigned long long a = 3, b = 4; sscanf(o, "%llu/%llu", &a, &b); conf.load_factor = (float)a / (float)b; }
        if ((o = opt(argc, argv, "seed"))) conf.hash_seed = (uint32_t)vf_num(o);
        if ((o = opt(argc, argv, "klen"))) { klen = (size_t)vf_num(o); if (klen < 1 || klen > 16) vf_die("klen out of range"); }
        if ((o = opt(argc, argv, "hash"))) hk = o;
        if ((o = opt(argc, argv, "mem")) && !strcmp(o, "conf")) { use_conf = 1; conf.mem_alloc = vf_conf_malloc; conf.mem_calloc = vf_conf_calloc; conf.mem_free = vf_conf_free; }
        if (!strcmp(hk, "string")) { if (keykind != K_STR) vf_die("hash=string needs keys=str"); conf.hash = STRING_HASH; conf.key_length = KEY_LENGTH_VARIABLE; }
        else if (!strcmp(hk, "general")) { if (keykind != K_BLK) vf_die("hash=general needs keys=blk"); conf.hash = GENERAL_HASH; conf.key_length = (int)klen; }
        else if (!strcmp(hk, "pointer")) { if (keykind != K_PTR) vf_die("hash=pointer needs keys=ptr"); conf.hash = POINTER_HASH; conf.key_length = KEY_LENGTH_POINTER; }
        else if (!strcmp(hk, "const0")) conf.hash = h_const0;
        else if (!strcmp(hk, "mod4")) conf.hash = h_mod4;
        else if (!strcmp(hk, "id")) conf.hash = h_id;
        else vf_die("unknown hash kind");
        conf.key_compare = keykind == K_PTR ? cmp_ptr : keykind == K_BLK ? cmp_blk : cc_common_cmp_str;
        if (keykind == K_BLK) conf.key_length = (int)klen;
        if (keykind == K_PTR) conf.key_length = KEY_LENGTH_POINTER;
    }
    (void)use_conf;
    npool = 0;
    if ((o = opt(argc, argv, "pool"))) {
        char buf[512]; snprintf(buf, sizeof buf, "%s", o);
        for (char *p = strtok(buf, ","); p && npool < 64; p = strtok(NULL, ",")) pool[npool++] = vf_num(p);
    }
    vf_set_plan((o = opt(argc, argv, "plan")) ? o : "");
    enum cc_stat s;
    if (is_set) s = VF_OUT(hs, dflt ? cc_hashset_new(&hs) : cc_hashset_new_conf(&conf, &hs));
    else s = VF_OUT(ht, dflt ? cc_hashtable_new(&ht) : cc_hashtable_new_conf(&conf, &ht));
    printf("new %s", vf_stat(s));
    if (s == CC_OK) obs(); else { ht = NULL; hs = NULL; printf(" |"); vf_ledger(); }
}

static int in_list(const char *list, unsigned long long w) {
    if (!strcmp(list, "-")) return 0;
    char buf[512]; snprintf(buf, sizeof buf, "%s", list);
    for (char *p = strtok(buf, ","); p; p = strtok(NULL, ",")) if (vf_num(p) == w) return 1;
    return 0;
}

static void run_op(int argc, char **argv) {
    if (!ht && !hs) { printf("skip"); return; }
    const char *op = argv[0];
    unsigned long long a1 = argc > 1 ? vf_num(argv[1]) : 0, a2 = argc > 2 ? vf_num(argv[2]) : 0;
    if (!strcmp(op, "add")) {
        enum cc_stat s = is_set ? cc_hashset_add(hs, key_of(a1)) : cc_hashtable_add(ht, key_of(a1), (void *)(uintptr_t)a2);
        printf("add %s", vf_stat(s));
    } else if (!strcmp(op, "get") && !is_set) {
        void *out = (void *)(uintptr_t)0xDEADBEEF;
        enum cc_stat s = cc_hashtable_get(ht, key_of(a1), &out);
        printf("get %s", vf_stat(s));
        if (s == CC_OK) printf(" %llu", (unsigned long long)(uintptr_t)out);
    } else if (!strcmp(op, "contains")) {
        bool c = is_set ? cc_hashset_contains(hs, key_of(a1)) : cc_hashtable_contains_key(ht, key_of(a1));
        printf("contains OK %d", (int)c);
    } else if (!strcmp(op, "remove")) {
        void *out = (void *)(uintptr_t)0xDEADBEEF;
        enum cc_stat s = is_set ? cc_hashset_remove(hs, key_of(a1), &out) : cc_hashtable_remove(ht, key_of(a1), &out);
        printf("remove %s", vf_stat(s));
        if (s == CC_OK) printf(" %llu", (unsigned long long)(uintptr_t)out);
    } else if (!strcmp(op, "remove_all")) {
        if (is_set) cc_hashset_remove_all(hs); else cc_hashtable_remove_all(ht);
        printf("remove_all OK");
    } else if (!strcmp(op, "size")) {
        printf("size OK %zu", is_set ? cc_hashset_size(hs) : cc_hashtable_size(ht));
    } else if ((!strcmp(op, "get_keys") || !strcmp(op, "get_values")) && !is_set) {
        CC_Array *ar = VF_SENT; int keys = !strcmp(op, "get_keys");
        enum cc_stat s = vf_out_check(keys ? cc_hashtable_get_keys(ht, &ar) : cc_hashtable_get_values(ht, &ar), (void**)&ar);
        printf("%s %s", op, vf_stat(s));
        if (s == CC_OK) {
            nwords = 0;
            for (size_t i = 0; i < cc_array_size(ar); i++) {
                void *x; cc_array_get_at(ar, i, &x);
                push_word(keys ? word_of(x) : (unsigned long long)(uintptr_t)x);
            }
            printf(" "); print_words();
            cc_array_destroy(ar);
        }
    } else if (!strcmp(op, "foreach_key") || (!strcmp(op, "foreach") && is_set)) {
        nwords = 0;
        if (is_set) cc_hashset_foreach(hs, cb_key); else cc_hashtable_foreach_key(ht, cb_key);
        printf("%s OK ", op); print_words();
    } else if (!strcmp(op, "foreach_value") && !is_set) {
        nwords = 0;
        cc_hashtable_foreach_value(ht, cb_val);
        printf("%s OK ", op); print_words();
    } else if (!strcmp(op, "iter")) {
        /* one whole traversal; entries whose key word is listed are removed through the iterator */
        const char *rm = argc > 1 ? argv[1] : "-";
        size_t nrm = 0, nok = 0;
        npairs = 0;
        if (is_set) {
            CC_HashSetIter it; void *k;
            cc_hashset_iter_init(&it, hs);
            while (cc_hashset_iter_next(&it, &k) != CC_ITER_END) {
                unsigned long long w = word_of(k);
                push_pair(w, 1);
                if (in_list(rm, w)) { nrm++; if (cc_hashset_iter_remove(&it, NULL) == CC_OK) nok++; }
            }
        } else {
            CC_HashTableIter it; TableEntry *e;
            cc_hashtable_iter_init(&it, ht);
            while (cc_hashtable_iter_next(&it, &e) != CC_ITER_END) {
                unsigned long long w = word_of(e->key);
                push_pair(w, (unsigned long long)(uintptr_t)e->value);
                if (in_list(rm, w)) { nrm++; if (cc_hashtable_iter_remove(&it, NULL) == CC_OK) nok++; }
            }
        }
        printf("iter OK "); print_pairs(); printf(" removed=%zu/%zu", nok, nrm);
    } else { printf("badop"); return; }
    obs();
}

static void run_trace_end(void) {
    if (!ht && !hs) { printf("end |"); vf_ledger(); return; }
    if (is_set) cc_hashset_destroy(hs); else cc_hashtable_destroy(ht);
    ht = NULL; hs = NULL;
    printf("end |"); vf_ledger();
}
