/* Harness for CC_ArraySized, run against the CC_Array model: an element of L bytes (L <= 8) is the
 * little-endian image of a number < 256^L. After every call that takes an element the caller's buffer is
 * overwritten (0xEE), so a stored element that aliases the caller's memory shows up as a wrong value. */
#include "common.h"
#include "sized/cc_array_sized.c"

#define NH 8
static CC_ArraySized *H[NH]; static size_t L = 8;
static struct { CC_ArraySizedIter it; int on; int h; } I[NH];
static struct { CC_ArraySizedZipIter it; int on; } Z[NH];
static uint8_t ebuf[16], ebuf2[16], obuf[16], obuf2[16];

static uint8_t *enc(uint8_t *b, unsigned long long v) { memset(b, 0, 16); for (size_t i = 0; i < L; i++) b[i] = (uint8_t)(v >> (8 * i)); return b; }
static unsigned long long dec(const uint8_t *b) { unsigned long long v = 0; for (size_t i = 0; i < L; i++) v |= (unsigned long long)b[i] << (8 * i); return v; }
static void scribble(void) { memset(ebuf, 0xEE, 16); memset(ebuf2, 0xEE, 16); }
static void red(uint8_t *a, uint8_t *b, uint8_t *r) { unsigned long long x = dec(a), y = b ? dec(b) : 0; uint8_t t[16]; enc(t, x * 31 + y); memcpy(r, t, L); }
static bool pred_even(const uint8_t *e) { return (dec(e) % 2) == 0; }
static int cmp_sort(const void *a, const void *b) { unsigned long long x = dec(a), y = dec(b); return (x > y) ? 5 : (x < y) ? -3 : 0; }   /* legal comparators need not return -1/0/1 */
static char vlog[4096]; static size_t vlen;
static void visit(uint8_t *e) { vlen += snprintf(vlog + vlen, sizeof vlog - vlen, "%s%llu", vlen ? " " : "", dec(e)); }

static void obs(void) {
    printf(" |");
    for (int k = 0; k < NH; k++) if (H[k]) {
        printf(" h%d:[%zu;", k, cc_array_sized_capacity(H[k]));
        for (size_t i = 0; i < cc_array_sized_size(H[k]); i++) { memset(obuf, 0x77, 16); cc_array_sized_get_at(H[k], i, obuf); printf("%s%llu", i ? " " : "", dec(obuf)); }
        printf("]");
    }
    vf_ledger();
}
static void run_trace_header(int argc, char **argv) {
    CC_ArraySizedConf c; cc_array_sized_conf_init(&c); int dflt = 0;
    for (int i = 3; i < argc; i++) {
        if (!strncmp(argv[i], "cap=", 4)) c.capacity = vf_num(argv[i] + 4);
        else if (!strncmp(argv[i], "esz=", 4)) L = vf_num(argv[i] + 4);
        else if (!strncmp(argv[i], "ef=", 3)) { unsigned long long n = 2, d = 1; sscanf(argv[i] + 3, "%llu/%llu", &n, &d); c.exp_factor = (float)n / (float)d; }
        else if (!strcmp(argv[i], "mem=conf")) { c.mem_alloc = vf_conf_malloc; c.mem_calloc = vf_conf_calloc; c.mem_free = vf_conf_free; }
        else if (!strcmp(argv[i], "default")) dflt = 1;
        else if (!strncmp(argv[i], "plan=", 5)) vf_set_plan(argv[i] + 5);
    }
    enum cc_stat s = VF_OUT(H[0], dflt ? cc_array_sized_new(L, &H[0]) : cc_array_sized_new_conf(L, &c, &H[0]));
    if (s != CC_OK) H[0] = NULL;
    printf("new %s", vf_stat(s)); obs();
}
static int hnum(const char *t, char k) { return (t[0] == k && t[1] >= '0' && t[1] < '0' + NH && !t[2]) ? t[1] - '0' : -1; }
#define A1 vf_num(a[1])
#define A2 vf_num(a[2])
static void array_op(int h, int argc, char **a) {
    CC_ArraySized *ar = H[h]; const char *op = a[0]; enum cc_stat s;
    if (!ar) { printf("%s nohandle", op); return; }
    memset(obuf, 0x77, 16);
    if (!strcmp(op, "add")) { s = cc_array_sized_add(ar, enc(ebuf, A1)); printf("add %s", vf_stat(s)); }
    else if (!strcmp(op, "add_at")) { s = cc_array_sized_add_at(ar, enc(ebuf, A1), A2); printf("add_at %s", vf_stat(s)); }
    else if (!strcmp(op, "replace_at")) { s = cc_array_sized_replace_at(ar, enc(ebuf, A1), A2, obuf); printf("replace_at %s", vf_stat(s)); if (s == CC_OK) printf(" %llu", dec(obuf)); }
    else if (!strcmp(op, "swap_at")) { s = cc_array_sized_swap_at(ar, A1, A2); printf("swap_at %s", vf_stat(s)); }
    else if (!strcmp(op, "remove")) { unsigned long long v = A1; s = cc_array_sized_remove(ar, enc(ebuf, v)); printf("remove %s", vf_stat(s)); if (s == CC_OK) printf(" %llu", v); }
    else if (!strcmp(op, "remove_at")) { s = cc_array_sized_remove_at(ar, A1, obuf); printf("remove_at %s", vf_stat(s)); if (s == CC_OK) printf(" %llu", dec(obuf)); }
    else if (!strcmp(op, "remove_last")) { s = cc_array_sized_remove_last(ar, obuf); printf("remove_last %s", vf_stat(s)); if (s == CC_OK) printf(" %llu", dec(obuf)); }
    else if (!strcmp(op, "remove_all")) { cc_array_sized_remove_all(ar); printf("remove_all OK"); }
    else if (!strcmp(op, "get_at")) {   /* through peek: the pointer-returning accessor */
        uint8_t *p = NULL; s = cc_array_sized_peek(ar, A1, &p);
        /* and the copying accessor: it must agree with peek in status and value */
        memset(obuf, 0xEE, 16); enum cc_stat s2 = cc_array_sized_get_at(ar, A1, obuf);
        if (s2 != s || (s == CC_OK && memcmp(obuf, p, L) != 0)) vf_die("get_at and peek disagree");
        printf("get_at %s", vf_stat(s)); if (s == CC_OK) printf(" %llu", dec(p)); }
    else if (!strcmp(op, "get_last")) { s = cc_array_sized_get_last(ar, obuf); printf("get_last %s", vf_stat(s)); if (s == CC_OK) printf(" %llu", dec(obuf)); }
    else if (!strcmp(op, "index_of")) { size_t ix = 777; s = cc_array_sized_index_of(ar, enc(ebuf, A1), &ix); printf("index_of %s", vf_stat(s)); if (s == CC_OK) printf(" %zu", ix); }
    else if (!strcmp(op, "contains")) { printf("contains OK %zu", cc_array_sized_contains(ar, enc(ebuf, A1))); }
    else if (!strcmp(op, "reverse")) { cc_array_sized_reverse(ar, ebuf2); printf("reverse OK"); }
    else if (!strcmp(op, "filter_mut")) { s = cc_array_sized_filter_mut(ar, pred_even); printf("filter_mut %s", vf_stat(s)); }
    else if (!strcmp(op, "trim")) { s = cc_array_sized_trim_capacity(ar); printf("trim %s", vf_stat(s)); }
    else if (!strcmp(op, "size")) { printf("size OK %zu", cc_array_sized_size(ar)); }
    else if (!strcmp(op, "map")) { vlen = 0; vlog[0] = 0; cc_array_sized_map(ar, visit); printf("map OK [%s]", vlog); }
    else if (!strcmp(op, "reduce")) { enc(obuf, 7); cc_array_sized_reduce(ar, red, obuf); printf("reduce OK %llu", dec(obuf)); }
    else if (!strcmp(op, "sort")) { cc_array_sized_sort(ar, cmp_sort); printf("sort OK"); }
    else if (!strcmp(op, "destroy")) { cc_array_sized_destroy(ar); H[h] = NULL; for (int k = 0; k < NH; k++) if (I[k].on && I[k].h == h) I[k].on = 0; printf("destroy OK"); }
    else printf("%s badop", op);
    scribble();
}
static void run_op(int argc, char **argv) {
    int h, d, h2; enum cc_stat s; uint8_t *p1 = NULL, *p2 = NULL;
    if (argc >= 4 && !strcmp(argv[1], "=")) {
        if ((d = hnum(argv[0], 'h')) >= 0 && (h = hnum(argv[2], 'h')) >= 0 && H[h] && !H[d]) {
            CC_ArraySized *out = VF_SENT; const char *op = argv[3];
            if (!strcmp(op, "subarray") && argc > 5) s = cc_array_sized_subarray(H[h], vf_num(argv[4]), vf_num(argv[5]), &out);
            else if (!strcmp(op, "copy_shallow")) s = cc_array_sized_copy(H[h], &out);
            else if (!strcmp(op, "filter")) s = cc_array_sized_filter(H[h], pred_even, &out);
            else { printf("badop"); return; }
            s = vf_out_check(s, (void**)&out);
            if (s == CC_OK) H[d] = out;
            printf("%s %s", op, vf_stat(s)); obs(); return;
        }
        if ((d = hnum(argv[0], 'i')) >= 0 && (h = hnum(argv[2], 'h')) >= 0 && H[h] && !strcmp(argv[3], "iter")) {
            cc_array_sized_iter_init(&I[d].it, H[h]); I[d].on = 1; I[d].h = h; printf("iter OK"); obs(); return; }
        if ((d = hnum(argv[0], 'z')) >= 0 && argc >= 5 && (h = hnum(argv[2], 'h')) >= 0 && (h2 = hnum(argv[3], 'h')) >= 0 && H[h] && H[h2] && !strcmp(argv[4], "zip")) {
            cc_array_sized_zip_iter_init(&Z[d].it, H[h], H[h2]); Z[d].on = 1; printf("zip OK"); obs(); return; }
        printf("skip"); obs(); return;
    }
    if (argc >= 2 && (h = hnum(argv[0], 'h')) >= 0) { array_op(h, argc - 1, argv + 1); obs(); return; }
    memset(obuf, 0x77, 16); memset(obuf2, 0x77, 16);
    if (argc >= 2 && (h = hnum(argv[0], 'i')) >= 0 && I[h].on) {
        const char *op = argv[1]; CC_ArraySizedIter *it = &I[h].it;
        if (!strcmp(op, "next")) { s = cc_array_sized_iter_next(it, &p1); printf("next %s", vf_stat(s)); if (s == CC_OK) printf(" %llu", dec(p1)); }
        else if (!strcmp(op, "remove")) { s = cc_array_sized_iter_remove(it, obuf); printf("remove %s", vf_stat(s)); if (s == CC_OK) printf(" %llu", dec(obuf)); }
        else if (!strcmp(op, "add")) { s = cc_array_sized_iter_add(it, enc(ebuf, vf_num(argv[2]))); printf("add %s", vf_stat(s)); }
        else if (!strcmp(op, "replace")) { s = cc_array_sized_iter_replace(it, enc(ebuf, vf_num(argv[2])), obuf); printf("replace %s", vf_stat(s)); if (s == CC_OK) printf(" %llu", dec(obuf)); }
        else if (!strcmp(op, "index")) { printf("index OK %zu", cc_array_sized_iter_index(it)); }
        else printf("badop");
        scribble(); obs(); return;
    }
    if (argc >= 2 && (h = hnum(argv[0], 'z')) >= 0 && Z[h].on) {
        const char *op = argv[1]; CC_ArraySizedZipIter *it = &Z[h].it;
        if (!strcmp(op, "next")) { s = cc_array_sized_zip_iter_next(it, &p1, &p2); printf("next %s", vf_stat(s)); if (s == CC_OK) printf(" %llu %llu", dec(p1), dec(p2)); }
        else if (!strcmp(op, "remove")) { s = cc_array_sized_zip_iter_remove(it, obuf, obuf2); printf("remove %s", vf_stat(s)); if (s == CC_OK) printf(" %llu %llu", dec(obuf), dec(obuf2)); }
        else if (!strcmp(op, "add")) { s = cc_array_sized_zip_iter_add(it, enc(ebuf, vf_num(argv[2])), enc(ebuf2, vf_num(argv[3]))); printf("add %s", vf_stat(s)); }
        else if (!strcmp(op, "replace")) { s = cc_array_sized_zip_iter_replace(it, enc(ebuf, vf_num(argv[2])), enc(ebuf2, vf_num(argv[3])), obuf, obuf2); printf("replace %s", vf_stat(s)); if (s == CC_OK) printf(" %llu %llu", dec(obuf), dec(obuf2)); }
        else if (!strcmp(op, "index")) { printf("index OK %zu", cc_array_sized_zip_iter_index(it)); }
        else printf("badop");
        scribble(); obs(); return;
    }
    printf("skip"); obs();
}
static void run_trace_end(void) {
    for (int k = 0; k < NH; k++) if (H[k]) { cc_array_sized_destroy(H[k]); H[k] = NULL; }
    printf("end |"); vf_ledger();
}
