/* Harness for CC_Deque (white box: layouts are constructed by setting the struct fields) and for the
 * adapter CC_Queue (public API only).
 *
 * Header:  T id deque kind=deque|queue cap=<n|default> mem=conf|libc [plan=1101] [first=F size=S [junk=0|1]]
 *   first=/size= (deque only): after cc_deque_new_conf the fields first/size/last are set, the S live slots are
 *   filled with 100, 101, ... front to back and, with junk=1, every other slot with 9000+slot (a stale value).
 * Observation after every line: size, capacity, every get_at, get_at(size) must be refused, get_first, get_last,
 * the contents through a fresh iterator; the same for the second container when there is one.
 * A value equal to the allocator's poison pattern is an uninitialised read: the harness aborts (the model
 * predicts that with Fault Uninit). */
#include "common.h"
#include "cc_deque.c"
#include "cc_queue.c"

#define POISON 0xABABABABABABABABULL
#define MAXV 4096
typedef unsigned long long ull;

/* One output line is assembled here and written only when the operation and its observation are complete, so
 * that an abort in the middle (sanitizer, uninit-read) leaves no partial line behind. */
static char obuf[1 << 20]; static size_t olen = 0;
static void P(const char *fmt, ...) __attribute__((format(printf, 1, 2)));
#include <stdarg.h>
static void P(const char *fmt, ...) {
    va_list ap; va_start(ap, fmt);
    int k = vsnprintf(obuf + olen, sizeof obuf - olen, fmt, ap);
    va_end(ap);
    if (k > 0) { olen += (size_t)k; if (olen >= sizeof obuf) olen = sizeof obuf - 1; }
}
static void P_flush(void) { fwrite(obuf, 1, olen, stdout); olen = 0; }
static void P_ledger(void) { P(" L=%zu,%zu,%llu", vf_count(TAG_CONF), vf_count(TAG_LIBC), vf_nreq); }

static int kind_queue = 0;
static CC_Deque *cur = NULL, *oth = NULL;
static CC_Queue *q1 = NULL, *q2 = NULL;
static CC_DequeIter it;      static int have_it = 0;
static CC_DequeZipIter zit;  static int have_zit = 0;
static CC_QueueIter qit;     static int have_qit = 0;
static QueueZipIter qzit;    static int have_qzit = 0;
static CC_DequeConf the_conf;

static ull cb_vals[MAXV]; static size_t cb_n = 0;
static ull val(void *p) { ull v = (ull)(uintptr_t)p; if (v == POISON) vf_die("uninit-read"); return v; }
static void cb_collect(void *p) { if (cb_n < MAXV) cb_vals[cb_n++] = val(p); }
static void cb_print(const char *name) {
    P("%s=[", name);
    for (size_t i = 0; i < cb_n; i++) P("%s%llu", i ? " " : "", cb_vals[i]);
    P("]");
}
static ull pred_m = 1, pred_r = 0;
static bool pred(const void *p) { return (val((void*)p) % pred_m) < pred_r; }
static void *cp_fn(void *p) { return (void*)(uintptr_t)(val(p) + 1000ULL); }
static int cmp_mod10(const void *a, const void *b) { return (val((void*)a) % 10 == val((void*)b) % 10) ? 0 : 1; }
static void *ptr(const char *s) { return (void*)(uintptr_t)vf_num(s); }

static void obs_deque(CC_Deque *d) {
    size_t n = cc_deque_size(d);
    P("size=%zu cap=%zu at=[", n, cc_deque_capacity(d));
    for (size_t i = 0; i < n; i++) {
        void *o = (void*)0x5E5E; enum cc_stat s = cc_deque_get_at(d, i, &o);
        if (i) P(" ");
        if (s == CC_OK) P("%llu", val(o)); else P("!%s", vf_stat(s));
    }
    void *o = (void*)0x5E5E; enum cc_stat s = cc_deque_get_at(d, n, &o);
    P("] oob=%s", vf_stat(s));
    o = (void*)0x5E5E; s = cc_deque_get_first(d, &o);
    P(" first=%s", vf_stat(s)); if (s == CC_OK) P(":%llu", val(o));
    o = (void*)0x5E5E; s = cc_deque_get_last(d, &o);
    P(" last=%s", vf_stat(s)); if (s == CC_OK) P(":%llu", val(o));
    CC_DequeIter i2; cc_deque_iter_init(&i2, d);
    P(" it=[");
    for (size_t k = 0; k < n + 2; k++) {
        if (cc_deque_iter_next(&i2, &o) != CC_OK) break;
        P("%s%llu", k ? " " : "", val(o));
    }
    P("]");
}
static void obs_queue(CC_Queue *q) {
    size_t n = cc_queue_size(q);
    void *o = (void*)0x5E5E; enum cc_stat s = cc_queue_peek(q, &o);
    P("size=%zu peek=%s", n, vf_stat(s)); if (s == CC_OK) P(":%llu", val(o));
    CC_QueueIter i2; cc_queue_iter_init(&i2, q);
    P(" it=[");
    for (size_t k = 0; k < n + 2; k++) {
        if (cc_queue_iter_next(&i2, &o) != CC_OK) break;
        P("%s%llu", k ? " " : "", val(o));
    }
    P("]");
}
static void obs(void) {
    P(" | ");
    if (kind_queue) { obs_queue(q1); if (q2) { P(" || "); obs_queue(q2); } }
    else { obs_deque(cur); if (oth) { P(" || "); obs_deque(oth); } }
    P_ledger();
}

static const char *kv(int argc, char **argv, const char *key) {
    size_t k = strlen(key);
    for (int i = 3; i < argc; i++) if (!strncmp(argv[i], key, k) && argv[i][k] == '=') return argv[i] + k + 1;
    return NULL;
}

static void trace_header(int argc, char **argv) {
    const char *kind = kv(argc, argv, "kind"), *cap = kv(argc, argv, "cap"), *mem = kv(argc, argv, "mem");
    const char *plan = kv(argc, argv, "plan"), *first = kv(argc, argv, "first"), *size = kv(argc, argv, "size");
    const char *junk = kv(argc, argv, "junk");
    kind_queue = kind && !strcmp(kind, "queue");
    int dflt = !cap || !strcmp(cap, "default");
    int conf_mem = mem && !strcmp(mem, "conf");
    cc_deque_conf_init(&the_conf);
    if (!dflt) the_conf.capacity = vf_num(cap);
    if (conf_mem) { the_conf.mem_alloc = vf_conf_malloc; the_conf.mem_calloc = vf_conf_calloc; the_conf.mem_free = vf_conf_free; }
    vf_set_plan(plan ? plan : "");
    enum cc_stat s;
    if (kind_queue) s = VF_OUT(q1, (dflt && !conf_mem) ? cc_queue_new(&q1) : cc_queue_new_conf(&the_conf, &q1));
    else            s = VF_OUT(cur, (dflt && !conf_mem) ? cc_deque_new(&cur) : cc_deque_new_conf(&the_conf, &cur));
    P("new %s", vf_stat(s));
    if (s != CC_OK) { cur = NULL; q1 = NULL; P(" |"); P_ledger(); return; }
    if (!kind_queue && first && size) {
        size_t c = cur->capacity, f = vf_num(first), n = vf_num(size);
        if (f >= c || n > c) vf_die("bad layout in trace header");
        if (junk && !strcmp(junk, "1")) for (size_t j = 0; j < c; j++) cur->buffer[j] = (void*)(uintptr_t)(9000 + j);
        for (size_t i = 0; i < n; i++) cur->buffer[(f + i) & (c - 1)] = (void*)(uintptr_t)(100 + i);
        cur->first = f; cur->size = n; cur->last = (f + n) & (c - 1);
    }
    obs();
}

static void out1(enum cc_stat s, void *o) { P(" %s", vf_stat(s)); if (s == CC_OK) P(" %llu", val(o)); }

static void new_other(const char *name, enum cc_stat s, CC_Deque *r) {
    P("%s %s", name, vf_stat(s));
    if (s == CC_OK) { if (oth) cc_deque_destroy(oth); oth = r; have_zit = 0; }
}

static void run_deque_op(int argc, char **argv) {
    const char *op = argv[0]; void *o = (void*)0x5E5E, *o2 = (void*)0x5E5E; enum cc_stat s;
    #define A(i) (argc > (i) ? argv[i] : "0")
    if (!strcmp(op, "add_first")) { P("%s %s", op, vf_stat(cc_deque_add_first(cur, ptr(A(1))))); }
    else if (!strcmp(op, "add_last")) { P("%s %s", op, vf_stat(cc_deque_add_last(cur, ptr(A(1))))); }
    else if (!strcmp(op, "add")) { P("%s %s", op, vf_stat(cc_deque_add(cur, ptr(A(1))))); }
    else if (!strcmp(op, "add_at")) { P("%s %s", op, vf_stat(cc_deque_add_at(cur, ptr(A(1)), vf_num(A(2))))); }
    else if (!strcmp(op, "replace_at")) { s = cc_deque_replace_at(cur, ptr(A(1)), vf_num(A(2)), &o); P("%s", op); out1(s, o); }
    else if (!strcmp(op, "remove")) { s = cc_deque_remove(cur, ptr(A(1)), &o); P("%s", op); out1(s, o); }
    else if (!strcmp(op, "remove_at")) { s = cc_deque_remove_at(cur, vf_num(A(1)), &o); P("%s", op); out1(s, o); }
    else if (!strcmp(op, "remove_first")) { s = cc_deque_remove_first(cur, &o); P("%s", op); out1(s, o); }
    else if (!strcmp(op, "remove_last")) { s = cc_deque_remove_last(cur, &o); P("%s", op); out1(s, o); }
    else if (!strcmp(op, "remove_all")) { cc_deque_remove_all(cur); P("%s OK", op); }
    else if (!strcmp(op, "remove_all_cb")) { cb_n = 0; cc_deque_remove_all_cb(cur, cb_collect); P("%s OK ", op); cb_print("cb"); }
    else if (!strcmp(op, "get_at")) { s = cc_deque_get_at(cur, vf_num(A(1)), &o); P("%s", op); out1(s, o); }
    else if (!strcmp(op, "get_first")) { s = cc_deque_get_first(cur, &o); P("%s", op); out1(s, o); }
    else if (!strcmp(op, "get_last")) { s = cc_deque_get_last(cur, &o); P("%s", op); out1(s, o); }
    else if (!strcmp(op, "trim")) { P("%s %s", op, vf_stat(cc_deque_trim_capacity(cur))); }
    else if (!strcmp(op, "reverse")) { cc_deque_reverse(cur); P("%s OK", op); }
    else if (!strcmp(op, "contains")) { P("%s OK %zu", op, cc_deque_contains(cur, ptr(A(1)))); }
    else if (!strcmp(op, "contains_value")) { P("%s OK %zu", op, cc_deque_contains_value(cur, ptr(A(1)), cmp_mod10)); }
    else if (!strcmp(op, "index_of")) { size_t ix = 0x5E5E; s = cc_deque_index_of(cur, ptr(A(1)), &ix); P("%s %s", op, vf_stat(s)); if (s == CC_OK) P(" %zu", ix); }
    else if (!strcmp(op, "filter_mut")) { pred_m = vf_num(A(1)); if (!pred_m) pred_m = 1; pred_r = vf_num(A(2)); P("%s %s", op, vf_stat(cc_deque_filter_mut(cur, pred))); }
    else if (!strcmp(op, "foreach")) { cb_n = 0; cc_deque_foreach(cur, cb_collect); P("%s OK ", op); cb_print("cb"); }
    else if (!strcmp(op, "copy_shallow")) { CC_Deque *r = VF_SENT; s = vf_out_check(cc_deque_copy_shallow(cur, &r), (void**)&r); new_other(op, s, r); }
    else if (!strcmp(op, "copy_deep")) { CC_Deque *r = VF_SENT; s = vf_out_check(cc_deque_copy_deep(cur, cp_fn, &r), (void**)&r); new_other(op, s, r); }
    else if (!strcmp(op, "filter")) { CC_Deque *r = VF_SENT; pred_m = vf_num(A(1)); if (!pred_m) pred_m = 1; pred_r = vf_num(A(2)); s = vf_out_check(cc_deque_filter(cur, pred, &r), (void**)&r); new_other(op, s, r); }
    else if (!strcmp(op, "swap")) { if (oth) { CC_Deque *t = cur; cur = oth; oth = t; have_it = have_zit = 0; P("swap OK"); } else P("swap NONE"); }
    else if (!strcmp(op, "drop")) { if (oth) { cc_deque_destroy(oth); oth = NULL; have_zit = 0; P("drop OK"); } else P("drop NONE"); }
    else if (!strcmp(op, "iter_init")) { cc_deque_iter_init(&it, cur); have_it = 1; P("%s OK", op); }
    else if (!strncmp(op, "iter_", 5) && !have_it) { P("%s NOITER", op); }
    else if (!strcmp(op, "iter_next")) { s = cc_deque_iter_next(&it, &o); P("%s", op); out1(s, o); }
    else if (!strcmp(op, "iter_remove")) { s = cc_deque_iter_remove(&it, &o); P("%s", op); out1(s, o); }
    else if (!strcmp(op, "iter_add")) { P("%s %s", op, vf_stat(cc_deque_iter_add(&it, ptr(A(1))))); }
    else if (!strcmp(op, "iter_replace")) { s = cc_deque_iter_replace(&it, ptr(A(1)), &o); P("%s", op); out1(s, o); }
    else if (!strcmp(op, "iter_index")) { P("%s OK %zu", op, cc_deque_iter_index(&it)); }
    else if (!strcmp(op, "zip_init")) { if (oth) { cc_deque_zip_iter_init(&zit, cur, oth); have_zit = 1; P("%s OK", op); } else P("%s NOZIP", op); }
    else if (!strncmp(op, "zip_", 4) && !(have_zit && oth)) { P("%s NOZIP", op); }
    else if (!strcmp(op, "zip_next")) { s = cc_deque_zip_iter_next(&zit, &o, &o2); P("%s %s", op, vf_stat(s)); if (s == CC_OK) P(" %llu %llu", val(o), val(o2)); }
    else if (!strcmp(op, "zip_add")) { P("%s %s", op, vf_stat(cc_deque_zip_iter_add(&zit, ptr(A(1)), ptr(A(2))))); }
    else if (!strcmp(op, "zip_remove")) { s = cc_deque_zip_iter_remove(&zit, &o, &o2); P("%s %s", op, vf_stat(s)); if (s == CC_OK) P(" %llu %llu", val(o), val(o2)); }
    else if (!strcmp(op, "zip_replace")) { s = cc_deque_zip_iter_replace(&zit, ptr(A(1)), ptr(A(2)), &o, &o2); P("%s %s", op, vf_stat(s)); if (s == CC_OK) P(" %llu %llu", val(o), val(o2)); }
    else if (!strcmp(op, "zip_index")) { P("%s OK %zu", op, cc_deque_zip_iter_index(&zit)); }
    else { P("badop"); return; }
    obs();
}

static void run_queue_op(int argc, char **argv) {
    const char *op = argv[0]; void *o = (void*)0x5E5E, *o2 = (void*)0x5E5E; enum cc_stat s;
    if (!strcmp(op, "enqueue")) { P("%s %s", op, vf_stat(cc_queue_enqueue(q1, ptr(A(1))))); }
    else if (!strcmp(op, "poll")) { s = cc_queue_poll(q1, &o); P("%s", op); out1(s, o); }
    else if (!strcmp(op, "peek")) { s = cc_queue_peek(q1, &o); P("%s", op); out1(s, o); }
    else if (!strcmp(op, "foreach")) { cb_n = 0; cc_queue_foreach(q1, cb_collect); P("%s OK ", op); cb_print("cb"); }
    else if (!strcmp(op, "new2")) {
        if (q2) { cc_queue_destroy(q2); q2 = NULL; have_qzit = 0; }
        CC_QueueConf c2 = the_conf; c2.capacity = vf_num(A(1));
        s = VF_OUT(q2, cc_queue_new_conf(&c2, &q2));
        P("%s %s", op, vf_stat(s));
    }
    else if (!strcmp(op, "enqueue2")) { if (q2) P("%s %s", op, vf_stat(cc_queue_enqueue(q2, ptr(A(1))))); else P("%s NONE", op); }
    else if (!strcmp(op, "poll2")) { if (q2) { s = cc_queue_poll(q2, &o); P("%s", op); out1(s, o); } else P("%s NONE", op); }
    else if (!strcmp(op, "qiter_init")) { cc_queue_iter_init(&qit, q1); have_qit = 1; P("%s OK", op); }
    else if (!strncmp(op, "qiter_", 6) && !have_qit) { P("%s NOITER", op); }
    else if (!strcmp(op, "qiter_next")) { s = cc_queue_iter_next(&qit, &o); P("%s", op); out1(s, o); }
    else if (!strcmp(op, "qiter_replace")) { s = cc_queue_iter_replace(&qit, ptr(A(1)), &o); P("%s", op); out1(s, o); }
    else if (!strcmp(op, "qzip_init")) { if (q2) { cc_queue_zip_iter_init(&qzit, q1, q2); have_qzit = 1; P("%s OK", op); } else P("%s NOZIP", op); }
    else if (!strncmp(op, "qzip_", 5) && !(have_qzit && q2)) { P("%s NOZIP", op); }
    else if (!strcmp(op, "qzip_next")) { s = cc_queue_zip_iter_next(&qzit, &o, &o2); P("%s %s", op, vf_stat(s)); if (s == CC_OK) P(" %llu %llu", val(o), val(o2)); }
    else if (!strcmp(op, "qzip_replace")) { s = cc_queue_zip_iter_replace(&qzit, ptr(A(1)), ptr(A(2)), &o, &o2); P("%s %s", op, vf_stat(s)); if (s == CC_OK) P(" %llu %llu", val(o), val(o2)); }
    else { P("badop"); return; }
    obs();
}

static void one_op(int argc, char **argv) {
    if (kind_queue) { if (!q1) { P("skip"); return; } run_queue_op(argc, argv); }
    else { if (!cur) { P("skip"); return; } run_deque_op(argc, argv); }
}

static void trace_end(void) {
    if (kind_queue) {
        if (!q1) { P("end |"); P_ledger(); return; }
        if (q2) { cc_queue_destroy(q2); q2 = NULL; }
        cb_n = 0; cc_queue_destroy_cb(q1, cb_collect); q1 = NULL;
    } else {
        if (!cur) { P("end |"); P_ledger(); return; }
        if (oth) { cc_deque_destroy(oth); oth = NULL; }
        cb_n = 0; cc_deque_destroy_cb(cur, cb_collect); cur = NULL;
    }
    P("end "); cb_print("cb"); P(" |"); P_ledger();
}

static void run_trace_header(int argc, char **argv) { olen = 0; trace_header(argc, argv); P_flush(); }
static void run_op(int argc, char **argv) { olen = 0; one_op(argc, argv); P_flush(); }
static void run_trace_end(void) { olen = 0; trace_end(); P_flush(); }
