/* Shared harness runtime: ledgered allocators with a fault plan, trace reader, fork-per-trace loop.
 * Every engine harness #includes this file first, then the /repo .c files it exercises (white box),
 * then defines   static void run_trace(int argc, char **argv)   plus the op interpreter.
 * libc malloc/calloc/free *as named in the library source* are redirected to the Libc ledger;
 * the harness passes the Conf triple through the *_conf structs. */
#ifndef VF_COMMON_H
#define VF_COMMON_H
#define _GNU_SOURCE
#include <stdio.h>
#include <stdlib.h>
#include <stdint.h>
#include <stdbool.h>
#include <string.h>
#include <unistd.h>
#include <signal.h>
#include <sys/wait.h>
#include <errno.h>
#include "cc_common.h"     /* enum cc_stat (the pool harnesses do not get it through the pool sources above) */

/* ---------------------------------------------------------------- optional pool backing (C14)
 * With VF_POOL=static or VF_POOL=dynamic in the environment, blocks of the *configured* family are carved out of
 * a real CC_StaticPool / CC_DynamicPool instead of libc malloc (the ledger bookkeeping is unchanged), so every
 * engine's traces can be replayed with the container living on a pool: observations must not change. */
#ifndef VF_NO_POOL
#include "memory/cc_static_pool.c"
#include "memory/cc_dynamic_pool.c"
#define VF_SPOOL_BYTES (48u << 20)
static uint8_t vf_spool_mem[VF_SPOOL_BYTES] __attribute__((aligned(16)));
static uint8_t vf_spool_hdr[128] __attribute__((aligned(16)));
static CC_StaticPool *vf_spool = NULL; static CC_DynamicPool *vf_dpool = NULL; static int vf_pool_mode = -1;
static void vf_pool_init(void) {
    const char *m = getenv("VF_POOL"); vf_pool_mode = 0;
    if (m && !strcmp(m, "static")) { cc_static_pool_new(VF_SPOOL_BYTES, 0, vf_spool_mem, vf_spool_hdr, &vf_spool); vf_pool_mode = 1; }
    else if (m && !strcmp(m, "dynamic")) {
        CC_DynamicPoolConf c; cc_dynamic_pool_conf_init(&c); c.is_fixed = false; c.exp_factor = 1; c.is_packed = false; c.alignment_boundary = 16;
        if (cc_dynamic_pool_new_conf(8u << 20, &c, &vf_dpool) == CC_OK) vf_pool_mode = 2; }
}
static void *vf_pool_get(size_t n) {
    n = (n + 15) & ~(size_t)15; if (!n) n = 16;
    return vf_pool_mode == 1 ? cc_static_pool_malloc(n, vf_spool) : cc_dynamic_pool_malloc(n, vf_dpool);
}
static void vf_pool_put(void *p) { if (vf_pool_mode == 1) cc_static_pool_free(p, vf_spool); else cc_dynamic_pool_free(p, vf_dpool); }
#else
static int vf_pool_mode = 0;
static void vf_pool_init(void) {}
static void *vf_pool_get(size_t n) { (void)n; return NULL; }
static void vf_pool_put(void *p) { (void)p; }
#endif

/* ---------------------------------------------------------------- ledger */
#define VF_MAXBLK 65536
enum { TAG_CONF = 0, TAG_LIBC = 1 };
typedef struct { void *p; size_t n; int tag; int pooled; } vf_blk;
static vf_blk vf_live[VF_MAXBLK];
static size_t vf_nlive = 0;
static unsigned long long vf_nreq = 0;
static char vf_plan[4096]; static size_t vf_plan_len = 0, vf_plan_pos = 0;
static unsigned long long vf_limit = 1ULL << 40;
static size_t VF_MAXOUT = 4u << 20;   /* set per trace by the parent: 1 MB + 4 KB per input line (observations grow with the container) */
static int vf_poison = 1;   /* fill fresh malloc memory with 0xAB so that uninitialised reads show */

static void vf_die(const char *why) {
    fflush(stdout);
    fprintf(stderr, "ERROR: Harness: %s\n", why);
    abort();
}
/* A constructor or derived-container builder that fails must "produce no object" (C08): its out parameter is
 * primed with a sentinel and must still hold it after a failed call - a stored (dangling) pointer is reported. */
#define VF_SENT ((void*)(uintptr_t)0x5E17AB1E)
#define VF_OUT(var, call) ((var) = VF_SENT, vf_out_check((call), (void**)&(var)))
static void vf_die(const char *why);
static enum cc_stat vf_out_check(enum cc_stat st, void **var) {
    if (st != CC_OK) { if (*var != VF_SENT) vf_die("out-parameter written by a failed constructor/builder"); *var = NULL; }
    return st;
}
static void *vf_alloc(int tag, size_t n, int zero) {
    int grant = 1;
    vf_nreq++;
    if (vf_plan_pos < vf_plan_len) grant = (vf_plan[vf_plan_pos++] == '1');
    if (!grant || n > vf_limit) return NULL;
    if (vf_pool_mode < 0) vf_pool_init();
    int pooled = (tag == TAG_CONF && vf_pool_mode > 0);
    void *p = pooled ? vf_pool_get(n) : (malloc)(n ? n : 1);
    if (!p) vf_die(pooled ? "pool-exhausted" : "host-oom");
    if (zero) memset(p, 0, n); else if (vf_poison) memset(p, 0xAB, n);
    if (vf_nlive >= VF_MAXBLK) vf_die("ledger-full");
    vf_live[vf_nlive].p = p; vf_live[vf_nlive].n = n; vf_live[vf_nlive].tag = tag; vf_live[vf_nlive].pooled = pooled; vf_nlive++;
    return p;
}
static void vf_release(int tag, void *p) {
    if (!p) return;                      /* free(NULL) is a no-op */
    for (size_t i = vf_nlive; i-- > 0;) {
        if (vf_live[i].p == p) {
            if (vf_live[i].tag != tag) vf_die(tag == TAG_LIBC ? "cross-free: configured block released with libc free"
                                                              : "cross-free: libc block released with configured free");
            int pooled = vf_live[i].pooled;
            vf_live[i] = vf_live[--vf_nlive];
            if (pooled) vf_pool_put(p); else (free)(p);
            return;
        }
    }
    vf_die("bad-free: block not live (double free or foreign pointer)");
}
static size_t vf_count(int tag) { size_t c = 0; for (size_t i = 0; i < vf_nlive; i++) if (vf_live[i].tag == tag) c++; return c; }
static int vf_is_live(void *p) { for (size_t i = 0; i < vf_nlive; i++) if (vf_live[i].p == p) return 1; return 0; }
static size_t vf_block_size(void *p) { for (size_t i = 0; i < vf_nlive; i++) if (vf_live[i].p == p) return vf_live[i].n; return (size_t)-1; }

static void *vf_conf_malloc(size_t n) { return vf_alloc(TAG_CONF, n, 0); }
static void *vf_conf_calloc(size_t a, size_t b) {
    size_t n; if (__builtin_mul_overflow(a, b, &n)) { vf_nreq++; if (vf_plan_pos < vf_plan_len) vf_plan_pos++; return NULL; }
    return vf_alloc(TAG_CONF, n, 1); }
static void vf_conf_free(void *p) { vf_release(TAG_CONF, p); }
static void *vf_libc_malloc(size_t n) { return vf_alloc(TAG_LIBC, n, 0); }
static void *vf_libc_calloc(size_t a, size_t b) {
    size_t n; if (__builtin_mul_overflow(a, b, &n)) { vf_nreq++; if (vf_plan_pos < vf_plan_len) vf_plan_pos++; return NULL; }
    return vf_alloc(TAG_LIBC, n, 1); }
static void vf_libc_free(void *p) { vf_release(TAG_LIBC, p); }

static void vf_set_plan(const char *bits) { vf_plan_len = strlen(bits); if (vf_plan_len >= sizeof vf_plan) vf_plan_len = sizeof vf_plan - 1;
    memcpy(vf_plan, bits, vf_plan_len); vf_plan_pos = 0; }
static void vf_ledger(void) { printf(" L=%zu,%zu,%llu", vf_count(TAG_CONF), vf_count(TAG_LIBC), vf_nreq); }

/* ---------------------------------------------------------------- statuses */
static const char *vf_stat(int s) {
    switch (s) { case 0: return "OK"; case 1: return "ERR_ALLOC"; case 2: return "ERR_INVALID_CAPACITY"; case 3: return "ERR_INVALID_RANGE";
    case 4: return "ERR_MAX_CAPACITY"; case 6: return "ERR_KEY_NOT_FOUND"; case 7: return "ERR_VALUE_NOT_FOUND"; case 8: return "ERR_OUT_OF_RANGE";
    case 9: return "ITER_END"; default: return "ERR_UNKNOWN"; }
}
static unsigned long long vf_num(const char *s) { return strtoull(s, NULL, 0); }

/* ---------------------------------------------------------------- trace loop */
#define VF_MAXTOK 64
static void run_trace_header(int argc, char **argv);          /* "T id engine args..." */
static void run_op(int argc, char **argv);                    /* one operation line */
static void run_trace_end(void);                              /* "END" */

static int vf_split(char *line, char **argv) {
    int n = 0; char *save = NULL;
    for (char *t = strtok_r(line, " \t\r\n", &save); t && n < VF_MAXTOK; t = strtok_r(NULL, " \t\r\n", &save)) argv[n++] = t;
    return n;
}

/* Runs one trace (an array of lines) in a forked child so that a crash is an observation. */
static void vf_run_child(char **lines, size_t n) {
    char *argv[VF_MAXTOK];
    for (size_t i = 0; i < n; i++) {
        char *copy = strdup(lines[i]);
        int argc = vf_split(copy, argv);
        if (argc == 0) { (free)(copy); continue; }
        if (i == 0) run_trace_header(argc, argv);
        else if (!strcmp(argv[0], "END")) run_trace_end();
        else run_op(argc, argv);
        printf("\n"); fflush(stdout);
        (free)(copy);
    }
}

int main(int argc, char **argv) {
    (void)argc; (void)argv;
    char **lines = NULL; size_t nl = 0, capl = 0;
    char *buf = NULL; size_t bn = 0; ssize_t r;
    while ((r = getline(&buf, &bn, stdin)) > 0) {
        if (nl == capl) { capl = capl ? capl * 2 : 1024; lines = (realloc)(lines, capl * sizeof *lines); }
        lines[nl++] = strdup(buf);
    }
    size_t i = 0; int runaways = 0;
    while (i < nl) {
        if (strncmp(lines[i], "T ", 2)) { i++; continue; }
        size_t j = i + 1;
        while (j < nl && strncmp(lines[j], "T ", 2)) j++;
        char id[64]; sscanf(lines[i], "T %63s", id);
        printf("T %s\n", id); fflush(stdout);
        int pfd[2]; if (pipe(pfd)) return 2;
        pid_t pid = fork();
        if (pid == 0) {
            close(pfd[0]); dup2(pfd[1], 2); close(pfd[1]);
            VF_MAXOUT = ((size_t)1 << 20) + 4096 * (j - i);
            alarm(600);   /* runaway guard only: legitimate thorough-tier traces take up to tens of seconds on a loaded machine */
            vf_run_child(lines + i, j - i);
            fflush(stdout);
#ifdef VF_COVERAGE
            { extern void __gcov_dump(void); __gcov_dump(); }   /* tools/coverage.py: children leave through _exit */
#endif
            _exit(0);
        }
        close(pfd[1]);
        static char err[65536]; size_t en = 0; ssize_t k;
        while ((k = read(pfd[0], err + en, sizeof err - 1 - en)) > 0) en += (size_t)k;
        err[en] = 0; close(pfd[0]);
        int st = 0; waitpid(pid, &st, 0);
        if (!(WIFEXITED(st) && WEXITSTATUS(st) == 0)) {
            char kind[160] = "unknown"; char *e;
            if ((e = strstr(err, "ERROR: Harness: "))) { snprintf(kind, sizeof kind, "harness:%.100s", e + 16); for (char *c = kind; *c; c++) if (*c == '\n') { *c = 0; break; } else if (*c == ' ') *c = '_'; }
            else if ((e = strstr(err, "ERROR: AddressSanitizer: "))) sscanf(e + 25, "%63[a-zA-Z0-9-]", kind), memmove(kind + 5, kind, strlen(kind) + 1), memcpy(kind, "asan:", 5);
            else if ((e = strstr(err, "runtime error: "))) { snprintf(kind, sizeof kind, "ubsan:%.100s", e + 15); for (char *c = kind; *c; c++) if (*c == '\n') { *c = 0; break; } else if (*c == ' ') *c = '_'; }
            else if ((e = strstr(err, "ERROR: Harness: "))) { snprintf(kind, sizeof kind, "harness:%.100s", e + 16); for (char *c = kind; *c; c++) if (*c == '\n') { *c = 0; break; } else if (*c == ' ') *c = '_'; }
            else if (WIFSIGNALED(st)) snprintf(kind, sizeof kind, "signal:%d", WTERMSIG(st));
            /* top /repo frame, if any, for the finding signature */
            char frame[128] = ""; char *f = strstr(err, " in cc_");
            if (f) sscanf(f + 4, "%100[a-zA-Z0-9_]", frame);
            printf("\nCRASH %s %s\n", kind, frame);
            if (strstr(kind, "output-limit") && ++runaways >= 40) { fflush(stdout); break; }   /* a broken container makes every observation run away: enough evidence, bounded output */
        }
        fflush(stdout);
        i = j;
    }
    return 0;
}

/* A corrupted container can make an observation loop run away (e.g. a size field that underflowed): cap the
 * output of one trace; beyond the cap the child aborts and the parent reports CRASH harness:output-limit. */
static size_t vf_out_bytes = 0;
#define printf(...) do { int vf_n_ = fprintf(stdout, __VA_ARGS__); if (vf_n_ > 0) vf_out_bytes += (size_t)vf_n_; \
                         if (vf_out_bytes > VF_MAXOUT) vf_die("output-limit: runaway observation"); } while (0)

/* redirect the allocator names used inside the library sources */
#define malloc vf_libc_malloc
#define calloc vf_libc_calloc
#define free vf_libc_free
#endif
