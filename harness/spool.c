/* Harness for CC_StaticPool. Pointers are printed as offsets from data_buf + offset.
 * The harness keeps its own record of live blocks (API-level rule: free(p) rolls back the block at
 * p iff p is the pointer of the most recent allocation) and monitors, independently of the model,
 * in-bounds, disjointness, canaries and the accounting identities (ok=1). */
#define VF_NO_POOL 1   /* this harness includes the pool sources itself */
#include "common.h"
#include "memory/cc_static_pool.c"

#define PAD 64
static uint8_t *raw, *region; static size_t psize, poff;
static CC_StaticPool *pool; static uint8_t *pool_mem;
static struct { size_t off, len; } blk[4096]; static size_t nblk; static long last_ptr = -1;
static int ok = 1;

static int canaries(void) {
    for (size_t i = 0; i < PAD + poff; i++) if (raw[i] != 0xCD) return 0;
    for (size_t i = 0; i < PAD; i++) if (raw[PAD + poff + psize + i] != 0xCD) return 0;
    return 1;
}
static void obs(void) {
    size_t sum = 0; for (size_t i = 0; i < nblk; i++) sum += blk[i].len;
    size_t used = cc_static_pool_used_bytes(pool), fr = cc_static_pool_free_bytes(pool);
    if (used != sum || used + fr != psize || !canaries()) ok = 0;
    printf(" | used=%zu free=%zu ok=%d", used, fr, ok);
}
static void record(uint8_t *p, size_t n) {
    if (!p) return;
    size_t off = (size_t)(p - region);
    if (p < region || off > psize || n > psize - off) ok = 0;                     /* inside the region */
    for (size_t i = 0; i < nblk; i++)                                            /* disjoint from live blocks */
        if (n && blk[i].len && off < blk[i].off + blk[i].len && blk[i].off < off + n) ok = 0;
    blk[nblk].off = off; blk[nblk].len = n; nblk++; last_ptr = (long)off;
}
static void run_trace_header(int argc, char **argv) {
    psize = 16; poff = 0;
    for (int i = 3; i < argc; i++) {
        if (!strncmp(argv[i], "size=", 5)) psize = vf_num(argv[i] + 5);
        if (!strncmp(argv[i], "offset=", 7)) poff = vf_num(argv[i] + 7);
    }
    raw = (malloc)(PAD + poff + psize + PAD); memset(raw, 0xCD, PAD + poff + psize + PAD);
    region = raw + PAD + poff; memset(region, 0xAA, psize);
    pool_mem = (malloc)(cc_static_pool_struct_size());
    enum cc_stat s = cc_static_pool_new(psize, poff, raw + PAD, pool_mem, &pool);
    printf("new %s", vf_stat(s)); obs();
}
static void run_op(int argc, char **argv) {
    if (!strcmp(argv[0], "malloc") && argc > 1) {
        size_t n = vf_num(argv[1]);
        uint8_t *p = cc_static_pool_malloc(n, pool);
        if (p) printf("malloc %zu", (size_t)(p - region)); else printf("malloc NULL");
        record(p, n); obs();
    } else if (!strcmp(argv[0], "calloc") && argc > 2) {
        size_t c = vf_num(argv[1]), n = vf_num(argv[2]);
        uint8_t *p = cc_static_pool_calloc(c, n, pool);
        if (p) {
            size_t tot = c * n; int z = 1;
            if ((size_t)(p - region) <= psize && tot <= psize - (size_t)(p - region)) { for (size_t i = 0; i < tot; i++) if (p[i]) z = 0; }
            printf("calloc %zu zero=%d", (size_t)(p - region), z);
            record(p, tot);
        } else printf("calloc NULL");
        obs();
    } else if (!strcmp(argv[0], "free") && argc > 1) {
        size_t off = vf_num(argv[1]);
        cc_static_pool_free(region + off, pool);
        if ((long)off == last_ptr && nblk && blk[nblk - 1].off == off) nblk--;
        printf("free"); obs();
    } else if (!strcmp(argv[0], "reset")) {
        cc_static_pool_reset(pool); nblk = 0; last_ptr = 0;
        printf("reset"); obs();
    } else if (!strcmp(argv[0], "write") && argc > 1) {
        if (nblk) memset(region + blk[nblk - 1].off, (int)vf_num(argv[1]), blk[nblk - 1].len);
        printf("write"); obs();
    } else printf("badop");
}
static void run_trace_end(void) {
    printf("end canary=%d", canaries()); obs();
    (free)(raw); (free)(pool_mem);
}
