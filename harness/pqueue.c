/* Harness for CC_PQueue (white box: the struct has no size accessor and the buffer prefix is a diagnostic).
 * Header:  T <id> pqueue <capacity|default> <num> <den> <cmp: div16|full|rev16|tie> <mem: conf|libc> [plan=<bits>]
 * Ops:     push <v> | pop | popn (NULL out) | top | destroy_cb | END
 * Same line format as ocaml/d_pqueue.ml. */
#include "common.h"
#include "cc_pqueue.c"

static CC_PQueue *pq = NULL;
static int mode = 0;   /* 0 div16, 1 full, 2 rev16, 3 tie */

static int cmp_div16(const void *a, const void *b) { uintptr_t x = (uintptr_t)a / 16, y = (uintptr_t)b / 16; return (x > y) ? 5 : (x < y) ? -3 : 0; }   /* legal comparators need not return -1/0/1 */
static int cmp_rev16(const void *a, const void *b) { return cmp_div16(b, a); }
static int cmp_full(const void *a, const void *b)  { uintptr_t x = (uintptr_t)a, y = (uintptr_t)b; return (x > y) ? 5 : (x < y) ? -3 : 0; }   /* legal comparators need not return -1/0/1 */
static int cmp_tie(const void *a, const void *b)   { (void)a; (void)b; return 0; }

static unsigned long long prio(void *p) {
    uintptr_t v = (uintptr_t)p;
    switch (mode) { case 1: return v; case 3: return 0; default: return v / 16; }
}

/* every value handed back by a successful pop, for the END line */
static unsigned long long *popped = NULL; static size_t npopped = 0, cpopped = 0;
static void remember(unsigned long long v) {
    if (npopped == cpopped) { cpopped = cpopped ? 2 * cpopped : 256; popped = (realloc)(popped, cpopped * sizeof *popped); }
    popped[npopped++] = v;
}
static int cmp_ull(const void *a, const void *b) { unsigned long long x = *(const unsigned long long *)a, y = *(const unsigned long long *)b; return (x > y) ? 5 : (x < y) ? -3 : 0; }   /* legal comparators need not return -1/0/1 */
static void print_sorted(unsigned long long *v, size_t n) {
    qsort(v, n, sizeof *v, cmp_ull);
    for (size_t i = 0; i < n; i++) printf("%s%llu", i ? " " : "", v[i]);
}

static void obs(void) {
    void *t = NULL;
    printf(" | size=%zu top=", pq->size);
    if (cc_pqueue_top(pq, &t) == CC_OK) printf("%llu", prio(t)); else printf("-");
    vf_ledger();
}
static void buf(void) {
    printf(" #B=[");
    for (size_t i = 0; i < pq->size; i++) printf("%s%llu", i ? " " : "", (unsigned long long)(uintptr_t)pq->buffer[i]);
    printf("]");
}

static void run_trace_header(int argc, char **argv) {
    CC_PQueueConf conf;
    int (*cmp)(const void *, const void *);
    if (argc < 8) vf_die("bad header");
    if (!strcmp(argv[6], "div16")) { mode = 0; cmp = cmp_div16; }
    else if (!strcmp(argv[6], "full")) { mode = 1; cmp = cmp_full; }
    else if (!strcmp(argv[6], "rev16")) { mode = 2; cmp = cmp_rev16; }
    else { mode = 3; cmp = cmp_tie; }
    cc_pqueue_conf_init(&conf, cmp);
    int dflt = !strcmp(argv[3], "default");
    int conf_mem = !strcmp(argv[7], "conf");
    if (!dflt) {
        conf.capacity = vf_num(argv[3]);
        conf.exp_factor = (float)vf_num(argv[4]) / (float)vf_num(argv[5]);
    }
    if (conf_mem) { conf.mem_alloc = vf_conf_malloc; conf.mem_calloc = vf_conf_calloc; conf.mem_free = vf_conf_free; }
    vf_set_plan(argc > 8 && !strncmp(argv[8], "plan=", 5) ? argv[8] + 5 : "");
    enum cc_stat s = VF_OUT(pq, (dflt && !conf_mem) ? cc_pqueue_new(&pq, cmp) : cc_pqueue_new_conf(&conf, &pq));
    printf("new %s", vf_stat(s));
    if (s == CC_OK) { obs(); buf(); } else { pq = NULL; printf(" |"); vf_ledger(); }
}

static unsigned long long *cb_args = NULL; static size_t ncb = 0;
static void cb_record(void *p) { cb_args[ncb++] = (unsigned long long)(uintptr_t)p; }

static void run_op(int argc, char **argv) {
    (void)argc;
    if (!pq) { printf("skip"); return; }
    if (!strcmp(argv[0], "push")) {
        enum cc_stat s = cc_pqueue_push(pq, (void *)(uintptr_t)vf_num(argv[1]));
        printf("push %s", vf_stat(s)); obs(); printf(" #V=-"); buf();
    } else if (!strcmp(argv[0], "pop")) {
        void *out = (void *)(uintptr_t)0xDEADBEEF;
        enum cc_stat s = cc_pqueue_pop(pq, &out);
        printf("pop %s", vf_stat(s));
        if (s == CC_OK) { printf(" p=%llu", prio(out)); remember((unsigned long long)(uintptr_t)out); }
        obs();
        if (s == CC_OK) printf(" #V=%llu", (unsigned long long)(uintptr_t)out); else printf(" #V=-");
        buf();
    } else if (!strcmp(argv[0], "popn")) {
        void *t = NULL;
        int had = cc_pqueue_top(pq, &t) == CC_OK;     /* pop hands back exactly what top shows */
        enum cc_stat s = cc_pqueue_pop(pq, NULL);
        if (s == CC_OK && had) remember((unsigned long long)(uintptr_t)t);
        printf("popn %s", vf_stat(s)); obs(); printf(" #V=-"); buf();
    } else if (!strcmp(argv[0], "top")) {
        void *out = (void *)(uintptr_t)0xDEADBEEF;
        enum cc_stat s = cc_pqueue_top(pq, &out);
        printf("top %s", vf_stat(s));
        if (s == CC_OK) printf(" p=%llu", prio(out));
        obs();
        if (s == CC_OK) printf(" #V=%llu", (unsigned long long)(uintptr_t)out); else printf(" #V=-");
        buf();
    } else if (!strcmp(argv[0], "destroy_cb")) {
        cb_args = (realloc)(NULL, (pq->size + 1) * sizeof *cb_args);   /* not malloc: that name is redirected to the Libc ledger */ ncb = 0;
        cc_pqueue_destroy_cb(pq, cb_record); pq = NULL;
        unsigned long long *sorted = (realloc)(NULL, (ncb + 1) * sizeof *sorted);
        if (ncb) memcpy(sorted, cb_args, ncb * sizeof *sorted);
        printf("destroy_cb OK n=%zu sorted=[", ncb); print_sorted(sorted, ncb); printf("] |"); vf_ledger();
        printf(" #CB=[");
        for (size_t i = 0; i < ncb; i++) printf("%s%llu", i ? " " : "", cb_args[i]);
        printf("]");
    } else printf("badop");
}

static void run_trace_end(void) {
    if (!pq) { printf("end |"); vf_ledger(); return; }
    /* drain through the public API, then destroy */
    size_t first = npopped;
    void *out;
    printf("end drain=[");
    while (cc_pqueue_pop(pq, &out) == CC_OK) { printf("%s%llu", npopped > first ? " " : "", prio(out)); remember((unsigned long long)(uintptr_t)out); }
    printf("] popped=[");
    unsigned long long *sorted = (realloc)(NULL, (npopped + 1) * sizeof *sorted);
    if (npopped) memcpy(sorted, popped, npopped * sizeof *sorted);
    print_sorted(sorted, npopped);
    printf("]");
    cc_pqueue_destroy(pq); pq = NULL;
    printf(" |"); vf_ledger();
    printf(" #D=[");
    for (size_t i = first; i < npopped; i++) printf("%s%llu", i > first ? " " : "", popped[i]);
    printf("]");
}
