/* Harness for CC_TSTTable (white box include; everything is read through the public API). */
#include "common.h"
#include "cc_tsttable.c"
/* the library text has been read: from here on malloc/free are the real libc ones (key strings and
   harness buffers live outside the ledger) */
#undef malloc
#undef calloc
#undef free

static CC_TSTTable *tb = NULL;
static CC_TSTTableIter it;
static int itst = 0;   /* 0 no valid iterator, 1 current NULL (fresh/ended), 2 after next OK, 3 after iter_remove */

/* ---- keys: hex text <-> interned NUL-terminated strings allocated outside the ledger */
#define MAXKEYS 4096
static char *k_text[MAXKEYS]; static char *k_str[MAXKEYS]; static size_t nkeys = 0;
static char *pool[MAXKEYS]; static size_t npool = 0;

static char *intern(const char *hex) {
    for (size_t i = 0; i < nkeys; i++) if (!strcmp(k_text[i], hex)) return k_str[i];
    size_t n = !strcmp(hex, "-") ? 0 : strlen(hex) / 2;
    char *s = malloc(n + 1);
    for (size_t i = 0; i < n; i++) { unsigned b; sscanf(hex + 2 * i, "%2x", &b); s[i] = (char)b; }
    s[n] = 0;
    if (nkeys >= MAXKEYS) vf_die("too many keys");
    k_text[nkeys] = strdup(hex); k_str[nkeys] = s; nkeys++;
    return s;
}
static void hex_of(const char *s, char *out) {
    if (!*s) { strcpy(out, "-"); return; }
    for (; *s; s++) out += sprintf(out, "%02x", (unsigned)(unsigned char)*s);
}

/* ---- observation */
#define MAXE 4096
static char *e_txt[MAXE]; static size_t ne;
static int cmp_str(const void *a, const void *b) { return strcmp(*(char *const *)a, *(char *const *)b); }
static void print_sorted(const char *name) {
    qsort(e_txt, ne, sizeof *e_txt, cmp_str);
    printf(" %s[", name);
    for (size_t i = 0; i < ne; i++) { printf("%s%s", i ? " " : "", e_txt[i]); free(e_txt[i]); }
    printf("]");
    ne = 0;
}
static void push(const char *s) { if (ne >= MAXE) vf_die("too many entries"); e_txt[ne++] = strdup(s); }
static void cb_key(const void *k) { char b[1024]; hex_of((const char *)k, b); push(b); }
static void cb_val(void *v) { char b[64]; sprintf(b, "%llu", (unsigned long long)(uintptr_t)v); push(b); }

static void obs(void) {
    char order[65536]; size_t on = 0; order[0] = 0;
    printf(" | size=%zu get[", cc_tsttable_size(tb));
    for (size_t i = 0; i < npool; i++) {
        void *out = (void *)(uintptr_t)0xDEAD;
        enum cc_stat s = cc_tsttable_get(tb, intern(pool[i]), &out);
        bool has = cc_tsttable_contains_key(tb, intern(pool[i]));
        if (has != (s == CC_OK)) printf("!contains-differs-from-get!");
        if (s == CC_OK) printf("%s%s=%llu", i ? "," : "", pool[i], (unsigned long long)(uintptr_t)out);
        else printf("%s%s=-", i ? "," : "", pool[i]);
    }
    printf("]");
    /* iterator: key=value pairs, sorted; the raw order goes to the diagnostic tail */
    CC_TSTTableIter oi; CC_TSTTableEntry *e;
    cc_tsttable_iter_init(&oi, tb);
    while (cc_tsttable_iter_next(&oi, &e) != CC_ITER_END) {
        char b[1200], h[1024]; hex_of(e->key, h);
        sprintf(b, "%s=%llu", h, (unsigned long long)(uintptr_t)e->value); push(b);
        if (on + strlen(h) + 2 < sizeof order) on += sprintf(order + on, "%s%s", on ? "," : "", h);
    }
    print_sorted("it");
    cc_tsttable_foreach_key(tb, cb_key); print_sorted("fk");
    cc_tsttable_foreach_value(tb, cb_val); print_sorted("fv");
    vf_ledger();
    printf(" #O=%s", order);
}

static void run_trace_header(int argc, char **argv) {
    /* T id tst <mem: conf|libc> [pool=k,k,...] [plan=bits] */
    CC_TSTTableConf conf;
    cc_tsttable_conf_init(&conf);
    int useconf = !strcmp(argv[3], "conf");
    if (useconf) { conf.mem_alloc = vf_conf_malloc; conf.mem_calloc = vf_conf_calloc; conf.mem_free = vf_conf_free; }
    const char *plan = "";
    for (int i = 4; i < argc; i++) {
        if (!strncmp(argv[i], "pool=", 5) && argv[i][5]) {
            char *save = NULL, *c = strdup(argv[i] + 5);
            for (char *t = strtok_r(c, ",", &save); t; t = strtok_r(NULL, ",", &save)) { pool[npool++] = t; intern(t); }
        } else if (!strncmp(argv[i], "plan=", 5)) plan = argv[i] + 5;
    }
    vf_set_plan(plan);
    enum cc_stat s = VF_OUT(tb, useconf ? cc_tsttable_new_conf(&conf, &tb) : cc_tsttable_new(&tb));
    printf("new %s", vf_stat(s));
    if (s == CC_OK) obs(); else { tb = NULL; printf(" |"); vf_ledger(); }
}

static void run_op(int argc, char **argv) {
    if (!tb) { printf("skip"); return; }
    const char *op = argv[0], *name = argv[0];
    /* add0 v / get0 / has0 / rm0: the same operations on the empty key (own names so that the known
       empty-key finding has its own signatures) */
    char *shifted[VF_MAXTOK];
    if (!strcmp(op, "add0") || !strcmp(op, "get0") || !strcmp(op, "has0") || !strcmp(op, "rm0")) {
        static char base[8]; strcpy(base, op); base[strlen(base) - 1] = 0; op = base;
        shifted[0] = argv[0]; shifted[1] = "-"; for (int i = 1; i < argc && i + 1 < VF_MAXTOK; i++) shifted[i + 1] = argv[i];
        argv = shifted;
    }
    if (!strcmp(op, "add")) {
        enum cc_stat s = cc_tsttable_add(tb, intern(argv[1]), (void *)(uintptr_t)vf_num(argv[2]));
        itst = 0;
        printf("%s %s", name, vf_stat(s)); obs();
    } else if (!strcmp(op, "get")) {
        void *out = (void *)(uintptr_t)0xDEAD;
        enum cc_stat s = cc_tsttable_get(tb, intern(argv[1]), &out);
        printf("%s %s", name, vf_stat(s));
        if (s == CC_OK) printf(" %llu", (unsigned long long)(uintptr_t)out);
        obs();
    } else if (!strcmp(op, "has")) {
        bool b = cc_tsttable_contains_key(tb, intern(argv[1]));
        printf("%s %d", name, (int)b); obs();
    } else if (!strcmp(op, "rm")) {
        void *out = (void *)(uintptr_t)0xDEAD;
        enum cc_stat s = cc_tsttable_remove(tb, intern(argv[1]), &out);
        itst = 0;
        printf("%s %s", name, vf_stat(s));
        if (s == CC_OK) printf(" %llu", (unsigned long long)(uintptr_t)out);
        obs();
    } else if (!strcmp(op, "clear")) {
        cc_tsttable_remove_all(tb);
        itst = 0;
        printf("clear OK"); obs();
    } else if (!strcmp(op, "size")) {
        printf("size %zu", cc_tsttable_size(tb)); obs();
    } else if (!strcmp(op, "iter")) {
        cc_tsttable_iter_init(&it, tb); itst = 1;
        printf("iter OK"); obs();
    } else if (!strcmp(op, "next")) {
        if (itst == 0) { printf("next SKIP"); obs(); return; }
        CC_TSTTableEntry *e = NULL;
        enum cc_stat s = cc_tsttable_iter_next(&it, &e);
        if (s == CC_OK) {
            itst = 2;
            if (e) { char h[1024]; hex_of(e->key, h); printf("next OK %s=%llu", h, (unsigned long long)(uintptr_t)e->value); }
            else printf("next OK NULL");
        } else { itst = 1; printf("next %s", vf_stat(s)); }
        obs();
    } else if (!strcmp(op, "irm")) {
        if (itst != 1 && itst != 2) { printf("irm SKIP"); obs(); return; }
        void *out = (void *)(uintptr_t)0xDEAD;
        enum cc_stat s = cc_tsttable_iter_remove(&it, &out);
        if (s == CC_OK) itst = 3;
        printf("irm %s", vf_stat(s));
        if (s == CC_OK) printf(" %llu", (unsigned long long)(uintptr_t)out);
        obs();
    } else printf("badop");
}

static void run_trace_end(void) {
    if (!tb) { printf("end |"); vf_ledger(); return; }
    cc_tsttable_destroy(tb); tb = NULL;
    printf("end |"); vf_ledger();
}
