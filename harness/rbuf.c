/* Harness for CC_Rbuf (white box: the conf struct is opaque in the header). */
#include "common.h"
#include "cc_ring_buffer.c"

static CC_Rbuf *rb = NULL;

static void obs(void) {
    /* public: size, is_empty; white-box: logical contents through peek() at (tail+i)%capacity */
    printf(" | size=%zu empty=%d [", cc_rbuf_size(rb), (int)cc_rbuf_is_empty(rb));
    for (size_t i = 0; i < rb->size; i++)
        printf("%s%llu", i ? " " : "", (unsigned long long)cc_rbuf_peek(rb, (int)((rb->tail + i) % rb->capacity)));
    printf("]");
    vf_ledger();
}

static void run_trace_header(int argc, char **argv) {
    /* T id rbuf <capacity|default> <mem: conf|libc> <plan> */
    CC_RbufConf conf;
    cc_rbuf_conf_init(&conf);
    int dflt = !strcmp(argv[3], "default");
    if (!dflt) conf.capacity = vf_num(argv[3]);
    if (!strcmp(argv[4], "conf")) { conf.mem_alloc = vf_conf_malloc; conf.mem_calloc = vf_conf_calloc; conf.mem_free = vf_conf_free; }
    vf_set_plan(argc > 5 ? argv[5] : "");
    enum cc_stat s = VF_OUT(rb, (dflt && strcmp(argv[4], "conf")) ? cc_rbuf_new(&rb) : cc_rbuf_conf_new(&conf, &rb));
    printf("new %s", vf_stat(s));
    if (s == CC_OK) obs(); else { rb = NULL; printf(" |"); vf_ledger(); }
}

static void run_op(int argc, char **argv) {
    (void)argc;
    if (!rb) { printf("skip"); return; }
    if (!strcmp(argv[0], "enq")) {
        cc_rbuf_enqueue(rb, vf_num(argv[1]));
        printf("enq OK"); obs();
    } else if (!strcmp(argv[0], "deq")) {
        uint64_t out = 0xDEADBEEF;
        enum cc_stat s = cc_rbuf_dequeue(rb, &out);
        printf("deq %s", vf_stat(s));
        if (s == CC_OK) printf(" %llu", (unsigned long long)out);
        obs();
    } else printf("badop");
}

static void run_trace_end(void) {
    if (!rb) { printf("end |"); vf_ledger(); return; }
    /* drain through the public API, then destroy */
    printf("end drain=[");
    uint64_t out; int first = 1;
    while (cc_rbuf_dequeue(rb, &out) == CC_OK) { printf("%s%llu", first ? "" : " ", (unsigned long long)out); first = 0; }
    printf("]");
    cc_rbuf_destroy(rb); rb = NULL;
    printf(" |"); vf_ledger();
}
