/* Harness for CC_List (white box include; everything observed goes through the public API). */
#include "common.h"
#include "cc_list.c"

static CC_List *L[2] = { NULL, NULL };
static int TAG[2] = { TAG_CONF, TAG_CONF };
static int dead = 0;

#define OBS_CAP 64
/* the whole output line is buffered and written when the operation and its observation are complete,
   so that a crash leaves no partial line */
static char LB[1 << 17]; static size_t LN = 0;
#define P(...) do { if (LN < sizeof LB - 1) LN += (size_t)snprintf(LB + LN, sizeof LB - LN, __VA_ARGS__); if (LN >= sizeof LB) LN = sizeof LB - 1; } while (0)
static void flush_line(void) { fwrite(LB, 1, LN, stdout); LN = 0; }
#define V(x) ((void*)(uintptr_t)(x))
#define U(p) ((unsigned long long)(uintptr_t)(p))

/* ---- callbacks (the model uses the same functions: cmp_val, cmp_key, pred_even, cp_1000, red_fn) */
static int cmp_val(const void *a, const void *b) { uintptr_t x = (uintptr_t)a, y = (uintptr_t)b; return x < y ? -3 : x > y ? 5 : 0; }   /* legal comparators need not return -1/0/1 */
static int cmp_key(const void *a, const void *b) { uintptr_t x = (uintptr_t)a / 16, y = (uintptr_t)b / 16; return x < y ? -3 : x > y ? 5 : 0; }   /* legal comparators need not return -1/0/1 */
static int qcmp_val(const void *a, const void *b) { return cmp_val(*(void* const*)a, *(void* const*)b); }
static int qcmp_key(const void *a, const void *b) { return cmp_key(*(void* const*)a, *(void* const*)b); }   /* ties between distinct elements */
static bool pred_even(const void *a) { return ((uintptr_t)a & 1) == 0; }
static void *cp_1000(void *a) { return V((uintptr_t)a + 1000); }
static unsigned long long logbuf[4096]; static size_t nlog = 0;
static void log_cb(void *e) { if (nlog < 4096) logbuf[nlog++] = U(e); }
static void red_fn(void *a, void *b, void *res) {
    uint64_t x = (a == res) ? *(uint64_t*)res : (uint64_t)(uintptr_t)a;
    *(uint64_t*)res = x * 31 + (uint64_t)(uintptr_t)b;
}
static void print_log(void) { P(" ["); for (size_t i = 0; i < nlog; i++) P("%s%llu", i ? " " : "", logbuf[i]); P("]"); }

static void set_conf(CC_ListConf *c, int tag) {
    cc_list_conf_init(c);
    if (tag == TAG_CONF) { c->mem_alloc = vf_conf_malloc; c->mem_calloc = vf_conf_calloc; c->mem_free = vf_conf_free; }
}

/* ---- observation of one list through the public API */
static void obs_list(const char *name, CC_List *l) {
    P(" %s:", name);
    if (!l) { P("-"); return; }
    size_t n = cc_list_size(l);
    P("size=%zu [", n);
    for (size_t i = 0; i < n && i < OBS_CAP; i++) {
        void *e = V(0xDEAD);
        enum cc_stat s = cc_list_get_at(l, i, &e);
        if (i) P(" ");
        if (s == CC_OK) P("%llu", U(e)); else P("!%s", vf_stat(s));
    }
    P("] it=[");
    CC_ListIter it; void *e; size_t k = 0;
    cc_list_iter_init(&it, l);
    while (k < 4 * OBS_CAP && cc_list_iter_next(&it, &e) == CC_OK) P("%s%llu", k++ ? " " : "", U(e));
    P("] rev=[");
    k = 0;
    cc_list_diter_init(&it, l);
    while (k < 4 * OBS_CAP && cc_list_diter_next(&it, &e) == CC_OK) P("%s%llu", k++ ? " " : "", U(e));
    P("]");
    enum cc_stat s = cc_list_get_first(l, &e);
    if (s == CC_OK) P(" first=%llu", U(e)); else P(" first=!%s", vf_stat(s));
    s = cc_list_get_last(l, &e);
    if (s == CC_OK) P(" last=%llu", U(e)); else P(" last=!%s", vf_stat(s));
}
static void obs(void) { P(" |"); obs_list("A", L[0]); obs_list("B", L[1]); P(" L=%zu,%zu,%llu", vf_count(TAG_CONF), vf_count(TAG_LIBC), vf_nreq); }

static void print_derived(enum cc_stat s, CC_List *d) {
    P(" %s", vf_stat(s));
    if (s != CC_OK) return;
    P(" size=%zu [", cc_list_size(d));
    CC_ListIter it; void *e; size_t k = 0;
    cc_list_iter_init(&it, d);
    while (k < 4 * OBS_CAP && cc_list_iter_next(&it, &e) == CC_OK) P("%s%llu", k++ ? " " : "", U(e));
    P("]");
    P(" own=%zu,%zu", vf_count(TAG_CONF), vf_count(TAG_LIBC));   /* live blocks per family while the derived list exists */
    cc_list_destroy(d);
}

static void run_trace_header(int argc, char **argv) {
    /* T id list <memA> <memB> [plan=bits] */
    const char *plan = "";
    for (int i = 3; i < argc; i++) if (!strncmp(argv[i], "plan=", 5)) plan = argv[i] + 5;
    vf_set_plan(plan);
    P("new");
    for (int k = 0; k < 2; k++) {
        CC_ListConf c;
        TAG[k] = !strcmp(argv[3 + k], "conf") ? TAG_CONF : TAG_LIBC;
        set_conf(&c, TAG[k]);
        enum cc_stat s = VF_OUT(L[k], (TAG[k] == TAG_LIBC) ? cc_list_new(&L[k]) : cc_list_new_conf(&c, &L[k]));
        if (s != CC_OK) { L[k] = NULL; dead = 1; }
        P(" %s", vf_stat(s));
    }
    obs(); flush_line();
}

static void out1_(enum cc_stat s, void *e) { P(" %s", vf_stat(s)); if (s == CC_OK) P(" %llu", U(e)); }
/* the call must be sequenced before the out value is read */
#define out1(call, e) do { enum cc_stat s_ = (call); out1_(s_, (e)); } while (0)
#define derived(call, d) do { (d) = VF_SENT; enum cc_stat s_ = vf_out_check((call), (void**)&(d)); print_derived(s_, (d)); } while (0)

static void run_iter(CC_List *l, int desc, int argc, char **argv) {
    CC_ListIter it; void *e;
    if (desc) cc_list_diter_init(&it, l); else cc_list_iter_init(&it, l);
    for (int i = 2; i < argc; i++) {
        char *t = argv[i]; enum cc_stat s;
        switch (t[0]) {
        case 'n': s = desc ? cc_list_diter_next(&it, &e) : cc_list_iter_next(&it, &e);
                  if (s == CC_OK) P(" n=%llu", U(e)); else P(" n=%s", vf_stat(s)); break;
        case 'r': e = V(0xDEAD); s = desc ? cc_list_diter_remove(&it, &e) : cc_list_iter_remove(&it, &e);
                  if (s == CC_OK) P(" r=%llu", U(e)); else P(" r=%s", vf_stat(s)); break;
        case 'a': s = desc ? cc_list_diter_add(&it, V(vf_num(t + 1))) : cc_list_iter_add(&it, V(vf_num(t + 1)));
                  P(" a=%s", vf_stat(s)); break;
        case 'p': e = V(0xDEAD); s = desc ? cc_list_diter_replace(&it, V(vf_num(t + 1)), &e) : cc_list_iter_replace(&it, V(vf_num(t + 1)), &e);
                  if (s == CC_OK) P(" p=%llu", U(e)); else P(" p=%s", vf_stat(s)); break;
        case 'i': P(" i=%llu", (unsigned long long)(desc ? cc_list_diter_index(&it) : cc_list_iter_index(&it))); break;
        default: P(" ?");
        }
    }
}

static void run_zip(CC_List *l1, CC_List *l2, int argc, char **argv) {
    CC_ListZipIter z; void *e1, *e2;
    cc_list_zip_iter_init(&z, l1, l2);
    for (int i = 2; i < argc; i++) {
        char *t = argv[i]; enum cc_stat s; char *colon = strchr(t, ':');
        unsigned long long x = 0, y = 0;
        if (colon) { x = vf_num(t + 1); y = vf_num(colon + 1); }
        switch (t[0]) {
        case 'n': s = cc_list_zip_iter_next(&z, &e1, &e2);
                  if (s == CC_OK) P(" n=%llu:%llu", U(e1), U(e2)); else P(" n=%s", vf_stat(s)); break;
        case 'r': e1 = e2 = V(0xDEAD); s = cc_list_zip_iter_remove(&z, &e1, &e2);
                  if (s == CC_OK) P(" r=%llu:%llu", U(e1), U(e2)); else P(" r=%s", vf_stat(s)); break;
        case 'a': s = cc_list_zip_iter_add(&z, V(x), V(y)); P(" a=%s", vf_stat(s)); break;
        case 'p': e1 = e2 = V(0xDEAD); s = cc_list_zip_iter_replace(&z, V(x), V(y), &e1, &e2);
                  if (s == CC_OK) P(" p=%llu:%llu", U(e1), U(e2)); else P(" p=%s", vf_stat(s)); break;
        case 'i': P(" i=%llu", (unsigned long long)cc_list_zip_iter_index(&z)); break;
        default: P(" ?");
        }
    }
}

static void run_op(int argc, char **argv) {
    if (!strcmp(argv[0], "plan")) { vf_set_plan(argc > 1 ? argv[1] : ""); P("plan"); obs(); flush_line(); return; }
    if (dead) { P("skip"); flush_line(); return; }
    int k = argv[0][0] == 'b';
    CC_List *l = L[k], *o = L[1 - k];
    const char *op = argc > 1 ? argv[1] : "?";
    unsigned long long x = argc > 2 ? vf_num(argv[2]) : 0, y = argc > 3 ? vf_num(argv[3]) : 0;
    int key = (argc > 2 && !strcmp(argv[argc - 1], "key"));
    void *e = V(0xDEAD);
    P("%s", op);
    if (!strcmp(op, "add_first")) P(" %s", vf_stat(cc_list_add_first(l, V(x))));
    else if (!strcmp(op, "add_last")) P(" %s", vf_stat(cc_list_add_last(l, V(x))));
    else if (!strcmp(op, "add")) P(" %s", vf_stat(cc_list_add(l, V(x))));
    else if (!strcmp(op, "add_at")) P(" %s", vf_stat(cc_list_add_at(l, V(x), y)));
    else if (!strcmp(op, "remove")) out1(cc_list_remove(l, V(x), &e), e);
    else if (!strcmp(op, "remove_at")) out1(cc_list_remove_at(l, x, &e), e);
    else if (!strcmp(op, "remove_first")) out1(cc_list_remove_first(l, &e), e);
    else if (!strcmp(op, "remove_last")) out1(cc_list_remove_last(l, &e), e);
    else if (!strcmp(op, "remove_all")) P(" %s", vf_stat(cc_list_remove_all(l)));
    else if (!strcmp(op, "remove_all_cb")) { nlog = 0; enum cc_stat s = cc_list_remove_all_cb(l, log_cb); P(" %s", vf_stat(s)); if (s == CC_OK) print_log(); }
    else if (!strcmp(op, "replace_at")) out1(cc_list_replace_at(l, V(x), y, &e), e);
    else if (!strcmp(op, "get_first")) out1(cc_list_get_first(l, &e), e);
    else if (!strcmp(op, "get_last")) out1(cc_list_get_last(l, &e), e);
    else if (!strcmp(op, "get_at")) out1(cc_list_get_at(l, x, &e), e);
    else if (!strcmp(op, "index_of")) { size_t idx = 0xDEAD; enum cc_stat s = cc_list_index_of(l, V(x), key ? cmp_key : cmp_val, &idx); out1_(s, V(idx)); }
    else if (!strcmp(op, "contains")) P(" OK %zu", cc_list_contains(l, V(x)));
    else if (!strcmp(op, "contains_value")) P(" OK %zu", cc_list_contains_value(l, V(x), key ? cmp_key : cmp_val));
    else if (!strcmp(op, "size")) P(" OK %zu", cc_list_size(l));
    else if (!strcmp(op, "to_array")) {
        void **arr = NULL; enum cc_stat s = cc_list_to_array(l, &arr);
        P(" %s", vf_stat(s));
        if (s == CC_OK) {
            P(" ["); for (size_t i = 0; i < cc_list_size(l); i++) P("%s%llu", i ? " " : "", U(arr[i])); P("]");
            if (TAG[k] == TAG_CONF) vf_conf_free(arr); else vf_libc_free(arr);
        }
    }
    else if (!strcmp(op, "foreach")) { nlog = 0; cc_list_foreach(l, log_cb); P(" OK"); print_log(); }
    else if (!strcmp(op, "reverse")) { cc_list_reverse(l); P(" OK"); }
    else if (!strcmp(op, "filter_mut")) P(" %s", vf_stat(cc_list_filter_mut(l, pred_even)));
    else if (!strcmp(op, "add_all")) P(" %s", vf_stat(cc_list_add_all(l, o)));
    else if (!strcmp(op, "add_all_at")) P(" %s", vf_stat(cc_list_add_all_at(l, o, x)));
    else if (!strcmp(op, "splice")) P(" %s", vf_stat(cc_list_splice(l, o)));
    else if (!strcmp(op, "splice_at")) P(" %s", vf_stat(cc_list_splice_at(l, o, x)));
    else if (!strcmp(op, "sublist")) { CC_List *d = NULL; derived(cc_list_sublist(l, x, y, &d), d); }
    else if (!strcmp(op, "copy_shallow")) { CC_List *d = NULL; derived(cc_list_copy_shallow(l, &d), d); }
    else if (!strcmp(op, "copy_deep")) { CC_List *d = NULL; derived(cc_list_copy_deep(l, cp_1000, &d), d); }
    else if (!strcmp(op, "filter")) { CC_List *d = NULL; derived(cc_list_filter(l, pred_even, &d), d); }
    else if (!strcmp(op, "sort")) P(" %s", vf_stat(cc_list_sort(l, key ? qcmp_key : qcmp_val)));
    else if (!strcmp(op, "sort_in_place")) { cc_list_sort_in_place(l, key ? cmp_key : cmp_val); P(" OK"); }
    else if (!strcmp(op, "reduce")) { uint64_t r = 7; enum cc_stat s = cc_list_reduce(l, red_fn, &r); P(" %s", vf_stat(s)); if (s == CC_OK) P(" %llu", (unsigned long long)r); }
    else if (!strcmp(op, "iter")) { P(" OK"); run_iter(l, 0, argc, argv); }
    else if (!strcmp(op, "diter")) { P(" OK"); run_iter(l, 1, argc, argv); }
    else if (!strcmp(op, "zip")) { P(" OK"); run_zip(l, o, argc, argv); }
    else P(" badop");
    obs(); flush_line();
}

static void run_trace_end(void) {
    /* A is destroyed with cc_list_destroy, B with cc_list_destroy_cb (callback arguments printed) */
    P("end");
    if (L[0]) { cc_list_destroy(L[0]); L[0] = NULL; }
    nlog = 0;
    if (L[1]) { cc_list_destroy_cb(L[1], log_cb); L[1] = NULL; }
    print_log();
    P(" |"); P(" L=%zu,%zu,%llu", vf_count(TAG_CONF), vf_count(TAG_LIBC), vf_nreq); flush_line();
}
