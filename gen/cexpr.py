"""A small C-expression parser and Gallina printer for guards, macros and constants.

Supported: integer literals (decimal, hex, U/L suffixes), identifiers, field access a->b / a.b
(the *last* field name is the variable), casts to size_t / (size_t), sizeof(T) for a table of known
types, unary ! - , binary * / % + - << >> < <= > >= == != & | && ||, parentheses, ?: is not supported.

The Gallina term is over N with 64-bit wrap-around on + - * and <<.
"""
import re

class ParseError(Exception):
    pass

TOK = re.compile(r"\s*(0[xX][0-9a-fA-F]+[uUlL]*|\d+[uUlL]*|[A-Za-z_]\w*|->|<<|>>|<=|>=|==|!=|&&|\|\||[-+*/%<>&|!().~^?:,])")

def tokenize(s):
    s = s.strip()
    out = []
    pos = 0
    while pos < len(s):
        m = TOK.match(s, pos)
        if not m:
            raise ParseError("cannot tokenize at %r" % s[pos:pos+20])
        out.append(m.group(1))
        pos = m.end()
        while pos < len(s) and s[pos].isspace():
            pos += 1
    return out

SIZEOF = {"size_t": 8, "void*": 8, "uint64_t": 8, "uint8_t": 1, "char": 1, "int": 4}

class P:
    def __init__(self, toks):
        self.t = toks
        self.i = 0
    def peek(self):
        return self.t[self.i] if self.i < len(self.t) else None
    def eat(self, x=None):
        tok = self.peek()
        if tok is None or (x is not None and tok != x):
            raise ParseError("expected %r got %r" % (x, tok))
        self.i += 1
        return tok
    # precedence climbing
    LEVELS = [["||"], ["&&"], ["|"], ["^"], ["&"], ["==", "!="], ["<", "<=", ">", ">="], ["<<", ">>"], ["+", "-"], ["*", "/", "%"]]
    def ternary(self):
        c = self.expr()
        if self.peek() == "?":
            self.eat()
            a = self.ternary(); self.eat(":"); b = self.ternary()
            return ("ite", c, a, b)
        return c
    def expr(self, lvl=0):
        if lvl == len(self.LEVELS):
            return self.unary()
        l = self.expr(lvl + 1)
        while self.peek() in self.LEVELS[lvl]:
            op = self.eat()
            r = self.expr(lvl + 1)
            l = ("bin", op, l, r)
        return l
    def unary(self):
        tok = self.peek()
        if tok == "!":
            self.eat(); return ("not", self.unary())
        if tok == "-":
            self.eat(); return ("neg", self.unary())
        if tok == "(":
            # cast?
            if self.i + 1 < len(self.t) and self.t[self.i+1] in ("size_t", "uint64_t", "int", "uint8_t", "float", "double"):
                j = self.i + 2
                while j < len(self.t) and self.t[j] == "*":
                    j += 1
                if j < len(self.t) and self.t[j] == ")":
                    ty = self.t[self.i+1]
                    self.i = j + 1
                    return ("cast", ty, self.unary())
        return self.postfix()
    def postfix(self):
        tok = self.eat()
        if tok == "(":
            e = self.ternary(); self.eat(")"); node = e
        elif tok == "sizeof":
            self.eat("(")
            ty = ""
            while self.peek() != ")":
                ty += self.eat()
            self.eat(")")
            if ty not in SIZEOF:
                raise ParseError("sizeof(%s) unknown" % ty)
            node = ("num", SIZEOF[ty])
        elif re.match(r"0[xX]", tok):
            node = ("num", int(re.sub(r"[uUlL]+$", "", tok), 16))
        elif tok[0].isdigit():
            node = ("num", int(re.sub(r"[uUlL]+$", "", tok)))
        elif re.match(r"[A-Za-z_]", tok):
            node = ("var", tok)
        else:
            raise ParseError("unexpected %r" % tok)
        while self.peek() in ("->", "."):
            sep = self.eat()
            f = self.eat()
            base = node[1] if node[0] == "var" else "?"
            node = ("var", base + sep + f)   # full access path; resolved by `resolve`
        return node

def parse(s):
    p = P(tokenize(s))
    e = p.ternary()
    if p.peek() is not None:
        raise ParseError("trailing %r" % p.peek())
    return e

BOOL_OPS = {"==": "=?", "!=": None, "<": "<?", "<=": "<=?", ">": None, ">=": None}

def resolve(path, env):
    """Coq name of a C access path: an explicit alias for the full path, else the last field name
    (itself possibly aliased)."""
    if path in env: return env[path]
    for k, v in env.items():                      # an alias may name a suffix of the path (ar1->size for iter->ar1->size)
        if ("->" in k or "." in k) and (path.endswith("->" + k) or path.endswith("." + k)): return v
    last = re.split(r"->|\.", path)[-1]
    return env.get(last, last)

def free_vars(e, acc=None, env=None):
    acc = [] if acc is None else acc
    env = env or {}
    if e[0] == "var":
        v = resolve(e[1], env)
        if v not in acc: acc.append(v)
        return acc
    if e[0] == "var":
        pass
    elif e[0] == "bin":
        free_vars(e[2], acc, env); free_vars(e[3], acc, env)
    elif e[0] in ("not", "neg"):
        free_vars(e[1], acc, env)
    elif e[0] == "cast":
        free_vars(e[2], acc, env)
    elif e[0] == "ite":
        free_vars(e[1], acc, env); free_vars(e[2], acc, env); free_vars(e[3], acc, env)
    return acc

def is_bool(e):
    return (e[0] == "not") or (e[0] == "bin" and e[1] in ("==", "!=", "<", "<=", ">", ">=", "&&", "||"))

def to_n(e, env):
    """Gallina term of type N."""
    k = e[0]
    if k == "num":
        return "%d" % e[1]
    if k == "var":
        return resolve(e[1], env)
    if k == "cast":
        if e[1] in ("float", "double"):
            raise ParseError("float cast")
        return to_n(e[2], env)
    if k == "neg":
        return "(wsub 0 %s)" % to_n(e[1], env)
    if k == "ite":
        return "(if %s then %s else %s)" % (to_b(e[1], env), to_n(e[2], env), to_n(e[3], env))
    if k == "bin":
        op, a, b = e[1], e[2], e[3]
        if op == "+": return "(wadd %s %s)" % (to_n(a, env), to_n(b, env))
        if op == "-": return "(wsub %s %s)" % (to_n(a, env), to_n(b, env))
        if op == "*": return "(wmul %s %s)" % (to_n(a, env), to_n(b, env))
        if op == "/": return "(%s / %s)" % (to_n(a, env), to_n(b, env))
        if op == "%": return "(%s mod %s)" % (to_n(a, env), to_n(b, env))
        if op == "&": return "(N.land %s %s)" % (to_n(a, env), to_n(b, env))
        if op == "|": return "(N.lor %s %s)" % (to_n(a, env), to_n(b, env))
        if op == "<<": return "((N.shiftl %s %s) mod W)" % (to_n(a, env), to_n(b, env))
        if op == ">>": return "(N.shiftr %s %s)" % (to_n(a, env), to_n(b, env))
    if is_bool(e):
        return "(if %s then 1 else 0)" % to_b(e, env)
    raise ParseError("cannot print %r as N" % (e,))

def to_b(e, env):
    """Gallina term of type bool."""
    k = e[0]
    if k == "not":
        return "(negb %s)" % to_b(e[1], env)
    if k == "bin":
        op, a, b = e[1], e[2], e[3]
        if op == "&&": return "(%s && %s)" % (to_b(a, env), to_b(b, env))
        if op == "||": return "(%s || %s)" % (to_b(a, env), to_b(b, env))
        if op == "==": return "(%s =? %s)" % (to_n(a, env), to_n(b, env))
        if op == "!=": return "(negb (%s =? %s))" % (to_n(a, env), to_n(b, env))
        if op == "<":  return "(%s <? %s)" % (to_n(a, env), to_n(b, env))
        if op == "<=": return "(%s <=? %s)" % (to_n(a, env), to_n(b, env))
        if op == ">":  return "(%s <? %s)" % (to_n(b, env), to_n(a, env))
        if op == ">=": return "(%s <=? %s)" % (to_n(b, env), to_n(a, env))
    # integer used as a condition
    return "(negb (%s =? 0))" % to_n(e, env)
