# (coq name, file, function, ('if'|'while'|'for2', n), parameters, fallback term)
GUARDS = [
  ("g_slist_get_node_at_range", "src/cc_slist.c", "get_node_at", ("if", 0), ["index", "size"],
     "(size <=? index)"),
  ("g_slist_splice_at_range", "src/cc_slist.c", "cc_slist_splice_at", ("if", 1), ["index", "size"],
     "(size <=? index)"),
  ("g_slist_sublist_range", "src/cc_slist.c", "cc_slist_sublist", ("if", 0), ["from=b", "to=e", "size"],
     "((e <? b) || (size <=? e))"),
  ("g_slist_reverse_trivial", "src/cc_slist.c", "cc_slist_reverse", ("if", 0), ["size"],
     "((size =? 0) || (size =? 1))"),
  ("g_slist_sort_single", "src/cc_slist.c", "cc_slist_sort", ("if", 0), ["size"],
     "(size =? 1)"),
]
MACROS = []
