# (coq name, file, function, ('if'|'while'|'for2', n), parameters, fallback term)
GUARDS = [
  ("g_rbuf_enqueue_full", "src/cc_ring_buffer.c", "cc_rbuf_enqueue", ("if", 0), ["size", "capacity", "head", "tail"],
     "(size =? capacity)"),
  ("g_rbuf_enqueue_room", "src/cc_ring_buffer.c", "cc_rbuf_enqueue", ("if", 1), ["size", "capacity"],
     "(size <? capacity)"),
]
