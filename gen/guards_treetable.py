# (coq name, file, function, ('if'|'while'|'for2', n), parameters, fallback term)
GUARDS = [
  ("g_tt_lookup_empty", "src/cc_treetable.c", "get_tree_node_by_key", ("if", 0), ["size"], "(size =? 0)"),
  ("g_tt_remove_first_empty", "src/cc_treetable.c", "cc_treetable_remove_first", ("if", 0), ["size"], "(size =? 0)"),
  ("g_tt_remove_last_empty", "src/cc_treetable.c", "cc_treetable_remove_last", ("if", 0), ["size"], "(size =? 0)"),
]
MACROS = []
