# Guards of src/cc_deque.c for the translator (gen/extract.py).
# (coq name, file, function, ('if'|'while'|'for2', n), parameters, fallback term)
#
# Three growth conditions have the shape `<comparison> && expand_capacity(deque) != CC_OK`; the call cannot be
# translated, so for those the *fallback* term itself is computed here from the current source: the left conjunct
# of the n-th `if` is cut out and sent through the same C-expression printer (gen/cexpr.py).  The translator then
# reports them as "fallback" although they do follow the source text; when this file is imported outside
# extract.py (no source at hand) the static text is used.
import os, sys
F = "src/cc_deque.c"

def _lhs(fn, n, params, static):
    """Gallina term of the left conjunct of the n-th `if` of function fn (top-level `&&`)."""
    try:
        main = sys.modules.get("__main__")
        import cexpr
        repo = sys.argv[1]
        src = main.strip_comments(open(os.path.join(repo, F)).read())
        cond = main.conditions(main.function_body(src, fn), "if")[n]
        depth = 0; cut = None
        for i, ch in enumerate(cond):
            if ch == "(": depth += 1
            elif ch == ")": depth -= 1
            elif ch == "&" and depth == 0 and cond[i:i+2] == "&&":
                cut = i; break
        if cut is None: return static
        e = cexpr.parse(cond[:cut])
        for v in cexpr.free_vars(e):
            if v not in params: return static
        return cexpr.to_b(e, {})
    except Exception:
        return static

RANGE = "(size <=? index)"
FRONT = "(index <=? (wsub (size / 2) 1))"
GUARDS = [
  # growth conditions (left conjunct; see above)
  ("g_deque_add_first_full", F, "cc_deque_add_first", ("if", 0), ["size", "capacity"],
     _lhs("cc_deque_add_first", 0, ["size", "capacity"], "(capacity <=? size)")),
  ("g_deque_add_last_full", F, "cc_deque_add_last", ("if", 0), ["size", "capacity"],
     _lhs("cc_deque_add_last", 0, ["size", "capacity"], "(capacity =? size)")),
  ("g_deque_add_at_full", F, "cc_deque_add_at", ("if", 1), ["size", "capacity"],
     _lhs("cc_deque_add_at", 1, ["size", "capacity"], "(capacity =? size)")),
  # cc_deque_add_at
  ("g_deque_add_at_range", F, "cc_deque_add_at", ("if", 0), ["index", "size"], RANGE),
  ("g_deque_add_at_zero", F, "cc_deque_add_at", ("if", 2), ["index"], "(index =? 0)"),
  ("g_deque_add_at_lastslot", F, "cc_deque_add_at", ("if", 3), ["index", "c"], "(index =? c)"),
  ("g_deque_add_at_front", F, "cc_deque_add_at", ("if", 4), ["index", "size"], FRONT),
  ("g_deque_add_at_front_wrap", F, "cc_deque_add_at", ("if", 5), ["p", "f"], "((p <? f) || (f =? 0))"),
  ("g_deque_add_at_f_nz", F, "cc_deque_add_at", ("if", 6), ["f"], "(negb (f =? 0))"),
  ("g_deque_add_at_p_nz", F, "cc_deque_add_at", ("if", 7), ["p"], "(negb (p =? 0))"),
  ("g_deque_add_at_back_wrap", F, "cc_deque_add_at", ("if", 8), ["p", "l", "c"], "((l <? p) || (l =? c))"),
  ("g_deque_add_at_p_ne_c", F, "cc_deque_add_at", ("if", 9), ["p", "c"], "(negb (p =? c))"),
  ("g_deque_add_at_l_ne_c", F, "cc_deque_add_at", ("if", 10), ["l", "c"], "(negb (l =? c))"),
  # cc_deque_replace_at / get_at / ends
  ("g_deque_replace_at_range", F, "cc_deque_replace_at", ("if", 0), ["index", "size"], RANGE),
  ("g_deque_get_at_range", F, "cc_deque_get_at", ("if", 0), ["index", "size"], RANGE),
  ("g_deque_get_first_empty", F, "cc_deque_get_first", ("if", 0), ["size"], "(size =? 0)"),
  ("g_deque_get_last_empty", F, "cc_deque_get_last", ("if", 0), ["size"], "(size =? 0)"),
  ("g_deque_remove_first_empty", F, "cc_deque_remove_first", ("if", 0), ["size"], "(size =? 0)"),
  ("g_deque_remove_last_empty", F, "cc_deque_remove_last", ("if", 0), ["size"], "(size =? 0)"),
  # cc_deque_remove_at
  ("g_deque_remove_at_range", F, "cc_deque_remove_at", ("if", 0), ["index", "size"], RANGE),
  ("g_deque_remove_at_zero", F, "cc_deque_remove_at", ("if", 1), ["index"], "(index =? 0)"),
  ("g_deque_remove_at_lastslot", F, "cc_deque_remove_at", ("if", 2), ["index", "c"], "(index =? c)"),
  ("g_deque_remove_at_front", F, "cc_deque_remove_at", ("if", 3), ["index", "size"], FRONT),
  ("g_deque_remove_at_front_wrap", F, "cc_deque_remove_at", ("if", 4), ["p", "f"], "(p <? f)"),
  ("g_deque_remove_at_f_ne_c", F, "cc_deque_remove_at", ("if", 5), ["f", "c"], "(negb (f =? c))"),
  ("g_deque_remove_at_p_nz", F, "cc_deque_remove_at", ("if", 6), ["p"], "(negb (p =? 0))"),
  ("g_deque_remove_at_back_wrap", F, "cc_deque_remove_at", ("if", 7), ["p", "l"], "(l <? p)"),
  ("g_deque_remove_at_p_ne_c", F, "cc_deque_remove_at", ("if", 8), ["p", "c"], "(negb (p =? c))"),
  ("g_deque_remove_at_l_gt1", F, "cc_deque_remove_at", ("if", 9), ["l"], "(1 <? l)"),
  # trim / copy_buffer / expand_capacity / upper_pow_two
  ("g_deque_trim_full", F, "cc_deque_trim_capacity", ("if", 0), ["size", "capacity"], "(capacity =? size)"),
  ("g_deque_trim_same", F, "cc_deque_trim_capacity", ("if", 1), ["new_size", "capacity"], "(new_size =? capacity)"),
  ("g_deque_copy_empty", F, "copy_buffer", ("if", 1), ["size"], "(size =? 0)"),
  ("g_deque_copy_contig", F, "copy_buffer", ("if", 2), ["last", "first"], "(first <? last)"),
  ("g_deque_expand_max", F, "expand_capacity", ("if", 0), ["capacity"], "(capacity =? MAX_POW_TWO)"),
  ("g_deque_upt_max", F, "upper_pow_two", ("if", 0), ["n"], "(MAX_POW_TWO <=? n)"),
  ("g_deque_upt_zero", F, "upper_pow_two", ("if", 1), ["n"], "(n =? 0)"),
  # loops and iterators
  ("g_deque_reverse_loop", F, "cc_deque_reverse", ("for2", 0), ["i", "s"], "(i <? (s / 2))"),
  ("g_deque_contains_loop", F, "cc_deque_contains", ("for2", 0), ["i", "size"], "(i <? size)"),
  ("g_deque_index_of_loop", F, "cc_deque_index_of", ("for2", 0), ["i", "size"], "(i <? size)"),
  ("g_deque_foreach_loop", F, "cc_deque_foreach", ("for2", 0), ["i", "size"], "(i <? size)"),
  ("g_deque_iter_next_end", F, "cc_deque_iter_next", ("if", 0), ["index", "size"], RANGE),
  ("g_deque_zip_next_end1", F, "cc_deque_zip_iter_next", ("if", 0), ["index", "size"], RANGE),
  ("g_deque_zip_next_end2", F, "cc_deque_zip_iter_next", ("if", 1), ["index", "size"], RANGE),
]
MACROS = []
# (coq name, file, function, [parameters]): straight-line functions translated as a whole
FUNCS = [("f_deque_upper_pow_two", "src/cc_deque.c", "upper_pow_two", ["n"])]
