GUARDS = []
MACROS = []
