# (coq name, file, function, ('if'|'while'|'for2', n), parameters, fallback term)
GUARDS = [
  ("g_ht_add_resize", "src/cc_hashtable.c", "cc_hashtable_add", ("if", 0), ["size", "threshold"],
     "(threshold <=? size)"),
  ("g_ht_resize_max", "src/cc_hashtable.c", "resize", ("if", 0), ["capacity"],
     "(capacity =? MAX_POW_TWO)"),
  ("g_ht_rpt_max", "src/cc_hashtable.c", "round_pow_two", ("if", 0), ["n"],
     "(MAX_POW_TWO <=? n)"),
  ("g_ht_rpt_zero", "src/cc_hashtable.c", "round_pow_two", ("if", 1), ["n"],
     "(n =? 0)"),
  ("g_ht_array_add_full", "src/cc_array.c", "cc_array_add", ("if", 0), ["size", "capacity"],
     "(capacity <=? size)"),
]
MACROS = []
# (coq name, file, function, [parameters]): straight-line functions translated as a whole
FUNCS = [("f_ht_round_pow_two", "src/cc_hashtable.c", "round_pow_two", ["n"])]
