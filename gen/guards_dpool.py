# (coq name, file, function, ('if'|'while'|'for2', n), parameters, fallback term)
GUARDS = [
  ("g_dpool_malloc_too_big", "src/memory/cc_dynamic_pool.c", "cc_dynamic_pool_malloc", ("if", 0), ["size", "top_page_size"],
     "(top_page_size <? size)"),
  ("g_dpool_malloc_needs_page", "src/memory/cc_dynamic_pool.c", "cc_dynamic_pool_malloc", ("if", 1), ["size", "top_page_size", "used"],
     "(wsub top_page_size used <? size)"),
  ("g_dpool_malloc_cannot_expand", "src/memory/cc_dynamic_pool.c", "cc_dynamic_pool_malloc", ("if", 2), ["is_fixed", "size", "next_max"],
     "(negb (is_fixed =? 0) || (next_max <? size))"),
  ("g_dpool_pad_nonzero", "src/memory/cc_dynamic_pool.c", "cc_dynamic_pool_malloc", ("if", 5), ["rem"],
     "(negb (rem =? 0))"),
  ("g_dpool_pad_clamp", "src/memory/cc_dynamic_pool.c", "cc_dynamic_pool_malloc", ("if", 6), ["padding", "room"],
     "(room <? padding)"),
  ("g_dpool_calloc_overflow", "src/memory/cc_dynamic_pool.c", "cc_dynamic_pool_calloc", ("if", 0), ["size", "count", "SIZE_MAX"],
     "(negb (size =? 0) && (SIZE_MAX / size <? count))"),
  ("g_dpool_free_top", "src/memory/cc_dynamic_pool.c", "cc_dynamic_pool_free", ("if", 0), ["ptr", "high_ptr"],
     "(ptr =? high_ptr)"),
]
