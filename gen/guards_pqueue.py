# (coq name, file, function, ('if'|'while'|'for2', n), parameters, fallback term)
# The float conditions of cc_pqueue_new_conf (exp_factor <= 1, ex >= CC_MAX_ELEMENTS / capacity) and the
# conditions that call the comparator are transcribed by hand in PQueueModel.v (rationals / Section variable).
_F = "src/cc_pqueue.c"
GUARDS = [
  ("g_pq_new_bytes", _F, "cc_pqueue_new_conf", ("if", 2), ["capacity", "SIZE_MAX"], "(SIZE_MAX / 8 <? capacity)"),
  ("g_pq_expand_bytes", _F, "expand_capacity", ("if", 2), ["new_capacity", "SIZE_MAX"], "(SIZE_MAX / 8 <? new_capacity)"),
  ("g_pq_expand_max", _F, "expand_capacity", ("if", 0), ["capacity"], "(capacity =? CC_MAX_ELEMENTS)"),
  ("g_pq_expand_overflow", _F, "expand_capacity", ("if", 1), ["new_capacity", "capacity"], "(new_capacity <=? capacity)"),
  ("g_pq_push_full", _F, "cc_pqueue_push", ("if", 0), ["i", "capacity"], "(capacity <=? i)"),
  ("g_pq_push_first", _F, "cc_pqueue_push", ("if", 2), ["i"], "(i =? 0)"),
  ("g_pq_top_empty", _F, "cc_pqueue_top", ("if", 0), ["size"], "(size =? 0)"),
  ("g_pq_pop_empty", _F, "cc_pqueue_pop", ("if", 0), ["size"], "(size =? 0)"),
  ("g_pq_heapify_small", _F, "cc_pqueue_heapify", ("if", 0), ["size"], "(size <=? 1)"),
  ("g_pq_heapify_moved", _F, "cc_pqueue_heapify", ("if", 3), ["index", "tmp"], "(negb (index =? tmp))"),
  ("g_pq_destroy_cb_more", _F, "cc_pqueue_destroy_cb", ("for2", 0), ["i", "size"], "(i <? size)"),
]
# (coq name, file, macro name, params)
MACROS = [
  ("m_CC_PARENT", "src/cc_pqueue.c", "CC_PARENT", ["x"]),
  ("m_CC_LEFT", "src/cc_pqueue.c", "CC_LEFT", ["x"]),
  ("m_CC_RIGHT", "src/cc_pqueue.c", "CC_RIGHT", ["x"]),
]
