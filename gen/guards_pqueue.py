GUARDS = []
# (coq name, file, macro name, params)
MACROS = [
  ("m_CC_PARENT", "src/cc_pqueue.c", "CC_PARENT", ["x"]),
  ("m_CC_LEFT", "src/cc_pqueue.c", "CC_LEFT", ["x"]),
  ("m_CC_RIGHT", "src/cc_pqueue.c", "CC_RIGHT", ["x"]),
]
