# (coq name, file, function, ('if'|'while'|'for2', n), parameters, fallback term)
GUARDS = [
  ("g_spool_malloc_refuse", "src/memory/cc_static_pool.c", "cc_static_pool_malloc", ("if", 0), ["size", "pool->size=psize", "used"],
     "(wsub psize used <? size)"),
  ("g_spool_calloc_overflow", "src/memory/cc_static_pool.c", "cc_static_pool_calloc", ("if", 0), ["size", "count", "SIZE_MAX"],
     "(negb (size =? 0) && (SIZE_MAX / size <? count))"),
  ("g_spool_free_top", "src/memory/cc_static_pool.c", "cc_static_pool_free", ("if", 0), ["ptr", "high_ptr"],
     "(ptr =? high_ptr)"),
]
