"""Property registry: lib/propdefs/Cnn.py defines PROP = {engines: [(engine, mode)], level_text, assumptions, [rule], [level_note], [technique]}."""
import os, glob, importlib.util
RULE = "a trace is non-trivial when at least one operation changes the observable state; distinct = distinct configuration+operation text"
PROPS = {}
NOT_CLAIMED = {}
for _f in sorted(glob.glob(os.path.join(os.path.dirname(os.path.abspath(__file__)), "propdefs", "C*.py"))):
    _spec = importlib.util.spec_from_file_location(os.path.basename(_f)[:-3], _f)
    _m = importlib.util.module_from_spec(_spec); _spec.loader.exec_module(_m)
    if hasattr(_m, "PROP"):
        _m.PROP.setdefault("rule", RULE)
        PROPS[os.path.basename(_f)[:-3]] = _m.PROP
    if hasattr(_m, "NOT_CLAIMED"):
        NOT_CLAIMED[os.path.basename(_f)[:-3]] = _m.NOT_CLAIMED
