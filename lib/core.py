"""Orchestration shared by all checks: regenerate, prove, extract, build harness, correspond,
classify, write evidence / replay files."""
import os, sys, re, json, subprocess, time, tempfile, shutil, fcntl, random, hashlib

VERIF = os.path.dirname(os.path.dirname(os.path.abspath(__file__)))
REPO = os.environ.get("VERIF_REPO", "/repo")
COQ = os.path.join(VERIF, "coq")
BUILD = os.path.join(VERIF, "build")
J = str(os.cpu_count() or 8)
ASAN_ENV = dict(os.environ, ASAN_OPTIONS="allocator_may_return_null=1:detect_leaks=0:abort_on_error=1:handle_abort=1",
                UBSAN_OPTIONS="print_stacktrace=0:halt_on_error=1")

def log(*a):
    print(*a, file=sys.stderr, flush=True)

class Lock:
    def __init__(self, name):
        os.makedirs(BUILD, exist_ok=True)
        self.path = os.path.join(BUILD, name)
    def __enter__(self):
        self.f = open(self.path, "w")
        fcntl.flock(self.f, fcntl.LOCK_EX)
    def __exit__(self, *a):
        fcntl.flock(self.f, fcntl.LOCK_UN); self.f.close()

def sh(cmd, cwd=None, timeout=1800, env=None, inp=None):
    p = subprocess.run(cmd, cwd=cwd, timeout=timeout, env=env, input=inp, stdout=subprocess.PIPE, stderr=subprocess.STDOUT,
                       shell=isinstance(cmd, str), text=True, errors="replace")
    return p.returncode, p.stdout

# ------------------------------------------------------------------------------------------------
# Coq side

def regenerate():
    """Source -> Generated/*.v; returns the translator's report."""
    rep = os.path.join(BUILD, "gen_report.%d.json" % os.getpid())
    rc, out = sh([sys.executable, os.path.join(VERIF, "gen", "extract.py"), REPO, os.path.join(COQ, "Generated"), "--report", rep])
    if rc != 0:
        return {"error": out, "fallback": ["translator crashed: " + out[-300:]], "guards": {}}
    r = json.load(open(rep)); os.unlink(rep)
    return r

def srceq_check(engine_names, rep):
    """Build Generated/SrcEq_<engine>.vo for the engines of a check (under the build lock).  A lemma that does
    not prove is cut out of the file (so that the others are still checked) and reported with arguments on which
    the fresh and the reference term differ, when the grid search finds some.
    Returns {"proved": [...], "failed": [{name, where, source, ref, cex}], "missing": [...], "identical": n, "guards": n}"""
    res = {"proved": [], "failed": [], "missing": [], "identical": 0, "guards": 0}
    # sized reuses the array model; its source has no translated guards of its own
    for e in dict.fromkeys(engine_names):
        info = rep.get("srceq", {}).get(e)
        path = os.path.join(COQ, "Generated", "SrcEq_%s.v" % e)
        if not info or not os.path.exists(path):
            continue
        res["guards"] += info["guards"]; res["identical"] += info["identical"]; res["missing"] += info["missing"]
        todo = list(info["differ"])
        for _ in range(len(todo) + 1):
            ok, out = coq_make(["Generated/SrcEq_%s.vo" % e])
            if ok: break
            errs = [x for x in coq_errors(out) if x["file"].endswith("SrcEq_%s.v" % e)]
            if not errs:
                res["failed"].append({"name": "SrcEq_%s" % e, "where": "", "source": "", "ref": "", "cex": None, "error": out[-300:]}); todo = []; break
            text = open(path).read().split("\n")
            name = None
            for l in text[:errs[0]["line"]][::-1]:
                m = re.match(r"\(\*BEGIN (\w+)\*\)", l)
                if m: name = m.group(1); break
            if name is None or name not in todo:
                res["failed"].append({"name": "SrcEq_%s" % e, "where": "", "source": "", "ref": "", "cex": None, "error": errs[0]["error"]}); todo = []; break
            b = text.index("(*BEGIN %s*)" % name); en = text.index("(*END %s*)" % name)
            text[b:en + 1] = ["(* NOT PROVED equal to the reference: %s *)" % name]
            open(path, "w").write("\n".join(text))
            todo.remove(name)
            d = info["detail"][name]
            res["failed"].append({"name": name, "where": d["where"], "source": d["source"], "ref": d["ref"], "term": d["term"],
                                  "cex": find_cex(d), "error": errs[0]["error"][:200]})
        res["proved"] += todo
    return res

def find_cex(d):
    """arguments (machine words, inside the guard's domain) on which the fresh and the reference term differ"""
    ps = d["params"]; n = len(ps)
    grid = "cex_grid" if n <= 2 else "cex_grid_small"
    if n > 6: return None
    dom = d.get("dom") or "true"
    probe = os.path.join(COQ, "Generated", "Probe_cex_%d.v" % os.getpid())
    open(probe, "w").write("From CC Require Import Base.Prelude Base.SrcEq Generated.Constants.\nLocal Open Scope N_scope. Local Open Scope bool_scope.\n"
        "Eval vm_compute in find_cex %d %s (fun l => match l with [%s] => negb %s || %s %s %s | _ => true end).\n"
        % (n, grid, "; ".join(ps), dom, "N.eqb" if d.get("kind") == "N" else "Bool.eqb", d["term"], d["ref"]))
    rc, out = sh(["coqc", "-Q", ".", "CC", probe], cwd=COQ, timeout=300)
    for ext in ("v", "vo", "vok", "vos", "glob"):
        try: os.unlink(probe[:-1] + ext)
        except OSError: pass
    try: os.unlink(os.path.join(COQ, "Generated", ".Probe_cex_%d.aux" % os.getpid()))
    except OSError: pass
    m = re.search(r"= Some\s*\[([^\]]*)\]", out)
    if rc == 0 and m:
        vals = [v.strip() for v in m.group(1).split(";") if v.strip()]
        return dict(zip(ps, vals))
    return None

def write_coqproject():
    """_CoqProject lists every .v under coq/ except the per-engine Extract.v files (run by hand)."""
    files = []
    for root, dirs, fs in os.walk(COQ):
        dirs.sort()
        for f in sorted(fs):
            if f.endswith(".v") and f != "Extract.v" and not f.startswith("Dbg_") and not f.startswith("Probe_"):
                files.append(os.path.relpath(os.path.join(root, f), COQ))
    text = "-Q . CC\n" + "\n".join(files) + "\n"
    p = os.path.join(COQ, "_CoqProject")
    if not os.path.exists(p) or open(p).read() != text:
        open(p, "w").write(text)

def coq_make(targets=None, keep_going=True):
    write_coqproject()
    """Full .vo build of the development (incremental). Returns (ok, output)."""
    if not os.path.exists(os.path.join(COQ, "Makefile")) or \
       os.path.getmtime(os.path.join(COQ, "Makefile")) < os.path.getmtime(os.path.join(COQ, "_CoqProject")):
        sh("coq_makefile -f _CoqProject -o Makefile", cwd=COQ)
    cmd = ["make", "-j" + J] + (["-k"] if keep_going else []) + (targets or [])
    rc, out = sh(cmd, cwd=COQ, timeout=3000)
    return rc == 0, out

def coq_errors(out):
    """Parse 'File "./X.v", line N ... Error: ...' blocks out of make output."""
    errs = []
    for m in re.finditer(r'File "\./([^"]+)", line (\d+), characters [^\n]*\n(Error:.*?)(?=\nmake|\nFile |\Z)', out, re.S):
        errs.append({"file": m.group(1), "line": int(m.group(2)), "error": " ".join(m.group(3).split())[:400]})
    return errs

def theorem_at(path, line):
    """Name of the Theorem/Lemma enclosing `line` in a .v file."""
    name = None
    try:
        for i, l in enumerate(open(os.path.join(COQ, path)), 1):
            m = re.match(r"\s*(?:Theorem|Lemma|Corollary|Example|Definition|Fixpoint)\s+(\w+)", l)
            if m: name = m.group(1)
            if i >= line: break
    except OSError:
        pass
    return name

def check_property_file(pid):
    """Re-run coqc on Properties/<pid>.v (statements closed by `exact`); returns dict with
    obligations, discharged, assumptions per theorem, errors."""
    path = "Properties/%s.v" % pid
    src = open(os.path.join(COQ, path)).read()
    thms = re.findall(r"^\s*Theorem\s+(\w+)", src, re.M)
    rc, out = sh(["coqc", "-Q", ".", "CC", path], cwd=COQ, timeout=900)
    assumptions = {}
    # Print Assumptions output: either "Closed under the global context" or "Axioms:\n name : type ..."
    blocks = re.split(r"(?=Closed under the global context|Axioms:)", out)
    pa = re.findall(r"Print Assumptions\s+(\w+)", src)
    k = 0
    for b in blocks:
        if b.startswith("Closed under the global context"):
            if k < len(pa): assumptions[pa[k]] = []; k += 1
        elif b.startswith("Axioms:"):
            names = re.findall(r"^(\S+)\s*:", b[len("Axioms:"):], re.M)
            if k < len(pa): assumptions[pa[k]] = names; k += 1
    res = {"file": path, "theorems": thms, "obligations": len(thms), "ok": rc == 0, "assumptions": assumptions, "output": out}
    if rc == 0:
        res["discharged"] = len(thms)
    else:
        errs = coq_errors(out)
        res["errors"] = errs
        first = min([e["line"] for e in errs if e["file"] == path] or [10**9])
        # theorems stated before the first error were accepted
        done = 0
        for m in re.finditer(r"^\s*Theorem\s+(\w+)", src, re.M):
            if src.count("\n", 0, m.start()) + 1 < first:
                # accepted only if its Qed is before the error too
                q = src.find("Qed.", m.start())
                if q != -1 and src.count("\n", 0, q) + 1 < first: done += 1
        res["discharged"] = done
    return res

FORBIDDEN = r"\b(Admitted|admit|Axiom|Parameter|Conjecture|Unset Guard|bypass_check|Admit Obligations|type-in-type)\b"
def hygiene(dirs=None, pid=None):
    """Forbidden constructs (comments stripped). dirs=None: the whole development; otherwise the given
    sub-directories plus Base, Generated and Properties/<pid>.v (the dependency cone of one property)."""
    bad = []
    for root, _, files in os.walk(COQ):
        rel = os.path.relpath(root, COQ)
        for f in files:
            if dirs is not None:
                top = rel.split(os.sep)[0]
                if not (top in dirs or top in ("Base", "Generated") or (top == "Properties" and f == "%s.v" % pid)):
                    continue
            if f.endswith(".v") and not f.startswith("Dbg_"):
                txt = open(os.path.join(root, f)).read()
                txt = re.sub(r"\(\*.*?\*\)", "", txt, flags=re.S)
                for m in re.finditer(FORBIDDEN, txt):
                    bad.append("%s: %s" % (os.path.relpath(os.path.join(root, f), COQ), m.group(1)))
    return bad

def build_driver(engine, edir, driver_src=None):
    """Extract the engine's models (coq/<edir>/Extract.v -> model.ml) and compile build/driver_<engine>."""
    od = os.path.join(BUILD, "ocaml_" + engine)
    shutil.rmtree(od, ignore_errors=True); os.makedirs(od)
    rc, out = sh(["coqc", "-Q", COQ, "CC", os.path.join(COQ, edir, "Extract.v")], cwd=od, timeout=900)
    for junk in ("Extract.vo", "Extract.glob", "Extract.vok", "Extract.vos", ".Extract.aux"):
        try: os.unlink(os.path.join(COQ, edir, junk))
        except OSError: pass
    if rc != 0:
        return False, out
    main = 'let () = Util.main %s.run\n' % ("D_" + engine)
    open(os.path.join(od, "main.ml"), "w").write(main)
    srcs = ["util.ml", "d_%s.ml" % engine]
    shutil.copy(os.path.join(VERIF, "ocaml", "util.ml"), od)
    shutil.copy(os.path.join(VERIF, "ocaml", driver_src or ("d_%s.ml" % engine)), os.path.join(od, "d_%s.ml" % engine))
    rc, out2 = sh(["ocamlfind", "ocamlopt", "-package", "unix", "-linkpkg", "-w", "-a", "model.mli", "model.ml"] + srcs + ["main.ml", "-o", os.path.join(BUILD, "driver_" + engine)], cwd=od, timeout=900)
    return rc == 0, out + out2

def coqchk(pid, timeout=2400):
    """Independent re-check of Properties/<pid>.vo and everything it depends on (thorough tier)."""
    t0 = time.time()
    with Lock("build.lock"):
        rc, out = sh(["coqchk", "-o", "-silent", "-Q", ".", "CC", "CC.Properties.%s" % pid], cwd=COQ, timeout=timeout)
    m = re.search(r"\* Axioms:\s*(.*?)\n\s*\n\* Constants", out, re.S)
    axioms = " ".join(m.group(1).split()) if m else "?"
    return {"ok": rc == 0, "axioms": axioms, "seconds": round(time.time() - t0, 1), "tail": out[-600:]}

def prepare(engines, targets, pid=None):
    """regenerate + coq build of `targets` (.vo) + one driver per engine; serialised by a file lock.
    engines: list of (name, coq dir, [model .vo targets])"""
    t0 = time.time()
    with Lock("build.lock"):
        rep = regenerate()
        model_targets = [t for ent in engines for t in ent[2]]
        mok, mout = coq_make(model_targets) if model_targets else (True, "")
        ok, out = coq_make(targets) if targets else (True, "")
        srceq = srceq_check([ent[0] for ent in engines], rep) if "error" not in rep else {"proved": [], "failed": [{"name": "translator", "where": "", "source": "", "ref": "", "cex": None, "error": rep["error"][-300:]}], "missing": [], "identical": 0, "guards": 0}
        res = {"gen": rep, "srceq": srceq, "coq_ok": ok, "coq_out": out, "coq_errors": coq_errors(out) if not ok else [],
               "models_ok": mok, "models_out": mout, "drivers": {}}
        for ent in engines:
            name, edir = ent[0], ent[1]
            dok, dout = build_driver(name, edir, ent[3] if len(ent) > 3 else None) if mok else (False, mout)
            res["drivers"][name] = (dok, dout)
        res["driver_ok"] = all(v[0] for v in res["drivers"].values())
        res["driver_out"] = "\n".join(v[1] for v in res["drivers"].values() if not v[0])
        res["hygiene"] = hygiene([e[1] for e in engines], pid) if pid else hygiene()
        res["proof"] = check_property_file(pid) if pid and os.path.exists(os.path.join(COQ, "Properties", pid + ".v")) else None
    res["prepare_s"] = round(time.time() - t0, 1)
    return res

# ------------------------------------------------------------------------------------------------
# C side

CFLAGS = ["-O1", "-g", "-fno-omit-frame-pointer", "-fsanitize=address,undefined", "-fno-sanitize-recover=all", "-w"]
PLAIN_CFLAGS = ["-O1", "-g", "-fno-omit-frame-pointer", "-w"]       # for the valgrind pass: no sanitizer runtime
def build_harness(engine, workdir, extra=(), plain=False):
    src = os.path.join(VERIF, "harness", engine + ".c")
    out = os.path.join(workdir, ("p_" if plain else "h_") + engine)
    cmd = ["gcc"] + (PLAIN_CFLAGS if plain else CFLAGS) + list(extra) + ["-I" + os.path.join(VERIF, "harness"), "-I" + os.path.join(REPO, "src", "include"),
           "-I" + os.path.join(REPO, "src"), "-I" + os.path.join(REPO, "src", "sized"), "-I" + os.path.join(REPO, "src", "memory"),
           "-o", out, src, "-lm"]
    rc, o = sh(cmd, timeout=600)
    return (out if rc == 0 else None), o

# ------------------------------------------------------------------------------------------------
# Running both sides

def parse_out(text):
    """{trace id: [lines]}"""
    res = {}; cur = None
    for l in text.split("\n"):
        if l.startswith("T "):
            cur = l[2:].strip(); res[cur] = []
        elif cur is not None and l != "":
            res[cur].append(l)
    return res

def _big_stack():
    # the extracted models recurse structurally over lists (no tail calls): give the driver a large stack
    import resource
    try: resource.setrlimit(resource.RLIMIT_STACK, (resource.RLIM_INFINITY, resource.RLIM_INFINITY))
    except (ValueError, OSError):
        try: resource.setrlimit(resource.RLIMIT_STACK, (1 << 30, 1 << 30))
        except (ValueError, OSError): pass

def _model_limits():
    # model side only (the sanitizer runtime of the harness needs its huge address space): a runaway value
    # built under a changed generated definition must not take the machine down
    import resource
    try: resource.setrlimit(resource.RLIMIT_AS, (12 << 30, 12 << 30))
    except (ValueError, OSError): pass
    _big_stack()

def run_side(cmd, traces_text, env=None, timeout=3000):
    p = subprocess.run(cmd, input=traces_text, stdout=subprocess.PIPE, stderr=subprocess.PIPE, text=True, errors="replace", env=env, timeout=timeout,
                       preexec_fn=_model_limits if "driver_" in os.path.basename(cmd[0]) else _big_stack)
    return parse_out(p.stdout), p

def chunked(lst, n):
    k = max(1, (len(lst) + n - 1) // n)
    return [lst[i:i + k] for i in range(0, len(lst), k)]

def run_parallel(cmd, traces, env=None, jobs=None):
    """traces: list of (id, [lines]). Split over processes; returns {id: [out lines]}"""
    from concurrent.futures import ThreadPoolExecutor
    jobs = jobs or min(int(J), max(1, len(traces) // 50))
    parts = chunked(traces, jobs)
    def one(part):
        text = "".join("\n".join(ls) + "\n" for _, ls in part)
        return run_side(cmd, text, env)[0]
    res = {}
    with ThreadPoolExecutor(max_workers=jobs) as ex:
        for r in ex.map(one, parts):
            res.update(r)
    return res

LEDGER = re.compile(r" (?:L=\d+,\d+,\d+|own=\d+,\d+)")
DIAG = re.compile(r" #[A-Za-z].*$")
def strip_ledger(s):
    """Remove what the ideal object has no opinion about: the ledger token and the diagnostic tail
    (everything from the first ' #<letter>' to the end of the line, e.g. ' #T=<tree shape> #K=<calls>').
    Both are still compared exactly between model and implementation."""
    return LEDGER.sub("", DIAG.sub("", s)).rstrip()

def norm_c(line):
    if line.startswith("CRASH"): return "CRASH"
    return line.rstrip()
TAG = re.compile(r" @([\w-]+)$")
def split_model(line):
    """model line -> (model observation, ideal observation or None). A trailing ' @tag' on the model part
    (a branch label of the model, e.g. the known-defective cc_deque_add_at branches) is not compared."""
    if line.startswith("CRASH"): return "CRASH", None
    if " ## " in line:
        a, b = line.split(" ## ", 1)
        return TAG.sub("", a.rstrip()), b.rstrip()
    return TAG.sub("", line.rstrip()), None
def model_tag(line):
    a = line.split(" ## ", 1)[0].rstrip()
    m = TAG.search(a)
    return m.group(1) if m else None

def compare(trace, c_lines, m_lines):
    """Returns dict: first C-vs-model mismatch and first C-vs-ideal mismatch (line index, texts)."""
    res = {"corr": None, "ideal": None, "crash": None}
    n = max(len(c_lines), len(m_lines))
    for i in range(n):
        c = c_lines[i] if i < len(c_lines) else "<missing>"
        mraw = m_lines[i] if i < len(m_lines) else "<missing>"
        m, ideal = split_model(mraw)
        cn = norm_c(c)
        if cn == "CRASH" and res["crash"] is None:
            res["crash"] = {"line": i, "c": c}
        if res["corr"] is None and cn != m:
            res["corr"] = {"line": i, "c": c, "model": mraw}
        if res["ideal"] is None and ideal is not None and not ideal.startswith("~") and strip_ledger(cn) != strip_ledger(ideal):
            res["ideal"] = {"line": i, "c": c, "ideal": ideal, "tag": model_tag(mraw)}
        if cn == "CRASH" or m == "CRASH":
            break
    return res

def op_of(trace_lines, idx):
    """operation text of output line idx (output line 0 = header)."""
    if idx < len(trace_lines):
        return trace_lines[idx]
    return "<end>"

# ------------------------------------------------------------------------------------------------
# Known findings

def load_known(pid=None):
    kf = []; fixed = []
    p = os.path.join(VERIF, "known_findings.txt")
    if os.path.exists(p):
        for l in open(p):
            l = l.strip()
            if l.startswith("finding:"):
                d = dict(re.findall(r"(\w+)=(\S+)", l))
                d["text"] = l
                if pid is None or d.get("property") == pid: kf.append(d)
            elif l.startswith("fixed:"):
                fixed.append(l)
    return kf, fixed

def load_expected_crashes():
    """signatures engine/op/crash of trace classes that are outside the documented contracts on purpose
    (the generators include them to check that the model faults exactly where the code has undefined behaviour)"""
    res = set()
    p = os.path.join(VERIF, "expected_crashes.txt")
    if os.path.exists(p):
        for l in open(p):
            m = re.match(r"crash:\s+sig=(\S+)", l.strip())
            if m: res.add(m.group(1))
    return res

# ------------------------------------------------------------------------------------------------
# Shrinking

def shrink(trace_lines, still_fails, budget=200):
    """delta-debug the operation lines (keep header and END)."""
    hdr, ops, end = trace_lines[0], trace_lines[1:-1], trace_lines[-1:]
    n = 2
    while len(ops) >= 1 and budget > 0:
        chunk = max(1, len(ops) // n)
        reduced = False
        i = 0
        while i < len(ops) and budget > 0:
            cand = ops[:i] + ops[i + chunk:]
            budget -= 1
            if still_fails([hdr] + cand + end):
                ops = cand; reduced = True
            else:
                i += chunk
        if not reduced:
            if chunk == 1: break
            n = min(len(ops), n * 2)
    return [hdr] + ops + end

def write_evidence(pid, ev):
    os.makedirs(os.path.join(VERIF, "evidence"), exist_ok=True)
    tmp = os.path.join(VERIF, "evidence", ".%s.%d.tmp" % (pid, os.getpid()))
    json.dump(ev, open(tmp, "w"), indent=1)
    os.replace(tmp, os.path.join(VERIF, "evidence", pid + ".json"))
