PROP = {"engines": [("list", "default", 2000), ("slist", "default", 1500), ("array", "default", 2500), ("deque", "default", 2500), ("pqueue", "default", 1000), ("hashtable", "default", 2000), ("tst", "default", 1000),
                    ("treetable", "default", 1000), ("rbuf", "default", 400), ("dpool", "default", 600)],
        "level_text": "Coq theorems per engine: every block an operation (or a derived-container builder) adds to the ledger carries the container's own allocator family, and since no step "
                      "faults every release went through that family too. The model's tags transcribe which identifier the C text calls, so this property is only as strong as its tie: "
                      "every trace runs with a counting custom triple while the library's malloc/calloc/free are macro-redirected to a separate ledger; the per-family live counts are "
                      "compared after every operation, and a block released through the wrong family aborts the harness.",
        "assumptions": ["'a container on a sufficiently large pool behaves like on malloc' follows from: containers consult the allocator only through grant/refuse answers (model structure) and "
                        "the pools grant every request that fits (C12_malloc, C13_malloc); it is not separately traced on real pool triples in the quick tier"]}
