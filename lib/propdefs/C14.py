PROP = {"engines": [("list", "default", 2000), ("slist", "default", 1500), ("array", "default", 2500), ("sized", "default", 1500), ("deque", "default", 2500), ("pqueue", "default", 1000), ("hashtable", "default", 2000), ("tst", "default", 1000),
                    ("treetable", "default", 1000), ("rbuf", "default", 400), ("dpool", "default", 600),
                    ("array", "pool-static", 1200), ("array", "pool-dynamic", 1200), ("deque", "pool-static", 1200), ("list", "pool-dynamic", 1000), ("slist", "pool-static", 800),
                    ("hashtable", "pool-dynamic", 1000), ("treetable", "pool-static", 800), ("tst", "pool-dynamic", 800), ("pqueue", "pool-static", 600), ("rbuf", "pool-dynamic", 300)],
        "level_text": "Coq theorems per engine: every block an operation (or a derived-container builder) adds to the ledger carries the container's own allocator family, and since no step "
                      "faults every release went through that family too. The model's tags transcribe which identifier the C text calls, so this property is only as strong as its tie: "
                      "every trace runs with a counting custom triple while the library's malloc/calloc/free are macro-redirected to a separate ledger; the per-family live counts are "
                      "compared after every operation, and a block released through the wrong family aborts the harness.",
        "assumptions": ["'a container on a sufficiently large pool behaves like on malloc': in the model a container consults the allocator only through grant/refuse answers and the pools grant every "
                        "request that fits (C12_malloc, C13_malloc); in the correspondence, samples of every engine's scope are replayed with the configured family carved out of a real "
                        "CC_StaticPool (48 MB) / expandable CC_DynamicPool (VF_POOL=static|dynamic in harness/common.h) and must give the same observations as the model"]}
