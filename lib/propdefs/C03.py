PROP = {"engines": [("treetable", "map")],
        "level_text": "Theorems C03_step_refines / C03_run_refines(_from, _granted) / C03_inorder / C03_iter_remove / C03_treeset_* (Coq, closed under the global context): "
                      "for every comparator that is a strict total order up to its equivalence, every history of add-or-replace, get, contains, remove, remove_first/last/all, "
                      "first/last key/value, greater_than/lesser_than, size, foreach and iterator init/next/remove on the zipper transcription of cc_treetable.c refines a strictly "
                      "sorted association list with exact statuses and out-values (ERR_ALLOC only when the allocator refused, state then unchanged), the red-black/BST invariant is kept, "
                      "in-order enumeration yields every key once ascending, iterator removal deletes exactly the yielded entry; CC_TreeSet is the same through cc_treeset.c's status "
                      "translation. The model is tied to the compiled code by correspondence: identical statuses, outs, public observation (iteration, first/last, successor/predecessor "
                      "of every pool key), tree shape with colours and comparator-call counts after every operation, on all insertion orders of <=6 keys (7 thorough) followed by all "
                      "removal orders of <=3 (4) of them for every distinct tree, drains, fault plans, random mixed histories under three comparators.",
        "assumptions": ["the comparator is a pure strict total order up to its equivalence (cmp_ok); keys/values are machine words",
                        "fewer than 2^64 operations / keys (the size field does not wrap)",
                        "iterator contract as documented: iter_next on an initialised iterator, iter_remove only after an iter_next, no table-level removal while iterating",
                        "get_greater_than/get_lesser_than per documented contract: the key must be present (absent key -> KEY_NOT_FOUND)",
                        "pointer surgery (parent links, shared sentinel) is modelled structurally by a zipper and node identity by the stored key: tied to the C text by the shape/colour correspondence, not proved about it",
                        "cc_treeset_remove's out (the internal dummy value) is not compared"]}
