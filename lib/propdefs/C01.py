PROP = {"engines": [("array", "default")],
        "level_text": "Coq theorems C01_step_refines / C01_run_refines: every operation of cc_array.c (add, add_at, replace_at, swap_at, remove, remove_at, remove_last, "
                      "remove_all, get_at, get_last, index_of, contains, reverse, filter_mut, trim, size) from any state satisfying the invariant, for every index below 2^64, "
                      "every element value, predicate, capacity >= 1 and factor, either equals the ideal-list step (status, out-value, contents) or is a refused allocation that "
                      "leaves the array literally unchanged; lifted to all histories from the constructor. The swap loop of reverse and the cluster loop of filter_mut are "
                      "transcribed and proved equal to rev / filter; growth and trim preserve contents. All range and growth guards are regenerated from cc_array.c on every run. "
                      "The model (also map, reduce, sort glue, contains_value, subarray/copies/filter, iterators, zip iterators, CC_Stack) is run against the compiled code on "
                      "exhaustive short histories, every boundary index on sizes 0-5, iterator programs, fault plans and random long histories.",
        "assumptions": ["CC_ArraySized (the byte-copy twin of CC_Array) is repaired by the same fix commits but is not yet modelled: its part of C01 is not claimed by this check",
                        "float expansion factor modelled as an exact rational (T5)", "limit*factor < 2^64 and limit < 2^64-16 for the growth theorems (capacity*8 must not wrap)",
                        "qsort is represented by a sorting function parameter (T6)"]}
