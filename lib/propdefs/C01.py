PROP = {"engines": [("array", "default"), ("sized", "default")],
        "level_text": "Coq theorems C01_step_refines / C01_run_refines: every operation of cc_array.c (add, add_at, replace_at, swap_at, remove, remove_at, remove_last, "
                      "remove_all, get_at, get_last, index_of, contains, reverse, filter_mut, trim, size) from any state satisfying the invariant, for every index below 2^64, "
                      "every element value, predicate, capacity >= 1 and factor, either equals the ideal-list step (status, out-value, contents) or is a refused allocation that "
                      "leaves the array literally unchanged; lifted to all histories from the constructor. The swap loop of reverse and the cluster loop of filter_mut are "
                      "transcribed and proved equal to rev / filter; growth and trim preserve contents. All range and growth guards are re-translated from cc_array.c on every run and machine-proved equal to the terms the model uses (Generated/SrcEq_array.v). "
                      "The model (also map, reduce, sort glue, contains_value, subarray/copies/filter, iterators, zip iterators, CC_Stack) is run against the compiled code on "
                      "exhaustive short histories, every boundary index on sizes 0-5, iterator programs, fault plans and random long histories.",
        "assumptions": ["CC_ArraySized is tied to the same model by correspondence: an element of 1, 3 or 8 bytes is the little-endian image of a number, the caller's buffer is overwritten after every call (private copy), and the whole CC_Array trace scope (minus reduce / contains_value / copy_deep, which the sized API lacks or types differently) is replayed on cc_array_sized.c; the theorems are about the shared model",
                        "float expansion factor modelled as an exact rational (T5)", "limit*factor < 2^64 and limit < 2^64-16 for the growth theorems (capacity*8 must not wrap)",
                        "qsort is represented by a sorting function parameter (T6)"]}
