PROP = {"engines": [("list", "default", 2500), ("slist", "default", 2000), ("rbuf", "default", 600), ("spool", "default", 1200), ("dpool", "default", 1500), ("array", "default", 3000), ("sized", "default", 2000), ("deque", "default", 3000),
                    ("pqueue", "default", 1000), ("hashtable", "default", 2500), ("tst", "default", 1000), ("treetable", "default", 1200)],
        "level_text": "Coq theorems per engine: from any state satisfying the invariant (hence after any history from the constructor, under any fault plan) no model operation "
                      "returns a Fault - the models carry explicit memory: checked slot indices, unwritten slots, node heaps, and a ledger in which a release of a non-live block or "
                      "through the other allocator family faults - and destroy returns the ledger to its pre-constructor state; destroy_cb / remove_all_cb call the callback once per "
                      "held element in order. This is partial by nature: a theorem about the model cannot exhibit a stray write in the compiled code. The tie is the correspondence run of "
                      "every engine under AddressSanitizer + UBSan with ledgered allocators (a model Fault must coincide with a sanitizer abort, and the ledger counters after destroy must agree).",
        "assumptions": ["pointer-level safety of the red-black tree and hash chains is modelled structurally; for them the runtime sanitizers on the sampled histories are the evidence",
                        "uninitialised reads: in the quick tier they are observed where the harness poisons fresh memory (0xAB fill) and the value reaches an observation; the thorough tier adds a valgrind memcheck pass (fresh memory left undefined) on a stratified 250 traces per engine; no MemorySanitizer (uninstrumented libc qsort)"],
        "technique": "machine-checked Coq proof (no-fault + ledger balance per engine) + sanitizer-instrumented model/implementation correspondence"}
