PROP = {"engines": [("list", "derived", 2500), ("slist", "derived", 2000), ("array", "derived", 3000), ("sized", "derived", 1500), ("deque", "derived", 3000), ("hashtable", "derived", 2000)],
        "level_text": "Coq theorems: subarray / copy_shallow / copy_deep / filter (array), copy_shallow / copy_deep / filter (deque from every layout), get_keys / get_values (hash table) "
                      "produce exactly the selected elements in source order, leave the source state unchanged, and the result satisfies the engine invariant with the source's "
                      "capacity, factor and allocator family - hence, by the engine's refinement theorem, it is a fully usable container that can grow. Independence is tied by "
                      "two-handle traces (mutate/destroy either side, re-observe the other), including >= capacity+1 appends to every result.",
        "assumptions": ["independence of source and result is by construction in a functional model and therefore only tied by correspondence",
                        "cc_stack_filter gives its result the default expansion factor (the array's factor is private to cc_array.c)"]}
