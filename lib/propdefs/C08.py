PROP = {"engines": [("list", "faults", 2500), ("slist", "faults", 2000), ("array", "faults", 3000), ("sized", "faults", 1500), ("deque", "faults", 3000), ("pqueue", "faults", 1200), ("hashtable", "faults", 2500), ("tst", "faults", 1200),
                    ("treetable", "faults", 1200), ("rbuf", "faults", 300), ("dpool", "faults", 300)],
        "level_text": "Coq theorems per engine, for every fault plan (universally quantified list of grant/refuse answers): an operation that reports the allocation error returns the "
                      "identical model state with the same live blocks and the invariant intact; constructors and derived builders return no object and an unchanged ledger. "
                      "Correspondence: every engine's traces that carry a fault plan (single refusal at every position, double refusals in thorough, refusal inside growth, node "
                      "creation, bulk copy, wrapped-container construction), status + full observation + ledger compared line by line.",
        "assumptions": []}
