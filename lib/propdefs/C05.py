PROP = {"engines": [("deque", "default")],
        "level_text": "Theorems C05_* (Coq): for every layout satisfying the invariant (any capacity 2^k, any first, any fill level incl. exactly full and wrapped) "
                      "every CC_Deque operation except add_at refines the ideal list (status, out-values, content) or answers CC_ERR_ALLOC with the state unchanged; "
                      "get_at i reads slot (first+i) mod capacity = i-th element; growth/trim/copies preserve order; upper_pow_two is the least power of two; lifted to all "
                      "histories from cc_deque_new_conf for every configured capacity. cc_deque_add_at is proved only in its correct branches (C05_add_at_partial) and refuted "
                      "in general (C05_add_at_refuted, known finding D17). The branch conditions are re-translated from cc_deque.c on every run, machine-proved equal to the terms the model uses, and the model is run against "
                      "the compiled code on every (capacity<=8 (16), first, size) layout x every operation x every index, all iterator programs of length 3, random histories "
                      "from configured capacities 0..9, fault plans, and CC_Queue histories.",
        "assumptions": ["a deque header and its buffer are live ledger blocks of the deque's own allocator family (owns)",
                        "capacity <= MAX_POW_TWO = 2^31 (ARCH_64 is not defined by the build)",
                        "uninitialised buffer slots read as the harness allocator's poison pattern; a model Fault Uninit is matched with a harness abort"]}
