PROP = {"engines": [("deque", "default")],
        "level_text": "placeholder",
        "assumptions": []}
