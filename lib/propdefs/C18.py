PROP = {"engines": [("array", "sort", 2500), ("sized", "sort", 1500), ("list", "sort", 4000), ("slist", "sort", 2500)],
        "level_text": "Coq theorems: under the hypothesis that the sorter (libc qsort, T6) returns a sorted permutation, array / list / slist sort leave a sorted permutation with size, "
                      "ends and links intact and the empty / single-element early exits change nothing; cc_list_sort_in_place (the library's own merge sort, transcribed literally incl. "
                      "link_behind node moves) equals the stable insertion sort of the old sequence under a total preorder: sorted, permutation, stable, list well formed. "
                      "Correspondence: all sequences of length <= 5 (7 thorough) over 3 keys with distinguishing tags (stability), sorted/reversed inputs, forward and backward traversal "
                      "compared after the sort; array and sized-array sort inside random histories.",
        "assumptions": ["qsort is assumed to return a sorted permutation (T6); it is not stable, so traces of the qsort-based sorts use comparators without ties between distinct elements"]}
