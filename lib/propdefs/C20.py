PROP = {"engines": [("array", "growth", 2500), ("sized", "growth", 1500), ("deque", "growth", 2500), ("pqueue", "growth", 1000), ("hashtable", "growth", 2000)],
        "level_text": "Coq theorems: size <= capacity (array, pqueue, deque, hash table invariants), capacity a power of two (deque, hash table), trim = max 1 size / next power of two "
                      "with contents preserved, load bound size <= capacity*load after every add under 1 <= capacity*load (refuted otherwise: D38), per-step growth factor and the "
                      "iterated geometric lower bound (so n appends cause O(log n) reallocations). The number of allocation requests is part of every observation line, so the "
                      "exact reallocation count of the code is compared with the model's on append-dominated histories.",
        "assumptions": ["known findings: D11 (capacity*(factor-1) < 1: growth stuck) and D38 (capacity*load < 1) are stated as refuted theorems with the guard on the positive ones"]}
