PROP = {"engines": [("list", "bounds", 2000), ("slist", "bounds", 1500), ("array", "bounds", 2500), ("sized", "bounds", 1500), ("array", "stack", 600), ("array", "iter", 800), ("sized", "iter", 500), ("list", "iter", 1000), ("slist", "iter", 800), ("deque", "iter", 800), ("array", "derived", 500), ("sized", "derived", 300), ("deque", "bounds", 2500), ("pqueue", "default", 800), ("hashtable", "default", 1500),
                    ("tst", "default", 800), ("treetable", "default", 800), ("rbuf", "default", 500)],
        "level_text": "Coq theorems per engine: a step with a non-OK status returns the identical model state, and the range guards generated from the C source on this run "
                      "are equivalent to 'index outside the documented range' for all index/size values (array, deque, pqueue; hash table / TST / ring buffer: missing key, empty). "
                      "Correspondence: every indexed function x states {empty, single, full, wrapped} x arguments {0,1,size-1,size,size+1,2^31,2^63,2^64-2,2^64-1} with the full "
                      "observation compared before/after, plus a seeded sample of every other engine's scope.",
        "assumptions": []}
