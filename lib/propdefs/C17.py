PROP = {"engines": [("treetable", "bal")],
        "level_text": "Theorems C17_height (rb_inv t -> height t <= 2*log2(size t + 1)), C17_cmp_calls (lookup/removal <= height, insertion <= height+1 comparator calls, hence <= 2*floor(log2(n+1))+2), "
                      "C17_add_rb, C17_remove_rb (insertion and every removal incl. first/last/all/iterator preserve root-black, no red-red, equal black height, strict order - the full CLRS "
                      "delete fix-up is proved), C17_run_balanced(_from) (every call of every history from the empty table, any fault plan), C17_rb_inv_b (validator = invariant); Coq, closed under the "
                      "global context, for every admissible comparator. Tied to cc_treetable.c by correspondence: a counting comparator on the C side gives the same count as the model for every "
                      "public call, the dumped C tree equals the model's tree (shape and colours) and satisfies the red-black rules after every operation; exhaustive orders as in C03, "
                      "sorted/reversed/zig-zag/random histories up to 10^4 keys (10^5 thorough).",
        "assumptions": ["the comparator is a pure strict total order up to its equivalence (cmp_ok)",
                        "fewer than 2^64 operations / keys",
                        "n in the bound is the number of keys before the call",
                        "pointer surgery is modelled structurally (zipper); tied to the C text by the shape/colour/count correspondence"]}
