PROP = {"engines": [("list", "default")],
        "level_text": "TODO",
        "assumptions": []}
