PROP = {"engines": [("list", "default"), ("slist", "default")],
        "level_text": "Theorems C04_list_* / C04_slist_* (Coq): on an explicit node-heap model of cc_list.c / cc_slist.c (every dereference checked, every node one ledger block) "
                      "the well-formedness invariant is preserved by every operation and every operation of the property (insert/remove/replace/get/index_of/contains/to_array/foreach/"
                      "reverse/filter_mut/add_all/add_all_at/splice/splice_at) returns exactly the status, out-values and contents of the ideal pair of sequences, for all histories "
                      "from the constructor; backward traversal = mirror image (list). The model is run against the compiled code (ASan/UBSan) on all operand sizes 0-4 x positions, "
                      "all short histories, iterator programs, sort traces, fault plans and random long histories; range guards are re-translated from the C source on every run and machine-proved equal to the terms the model uses.",
        "assumptions": ["splice / splice_at only: both lists use the same allocator family (they hand the source's nodes to the destination; with different families the model and the code both end in a cross-family free). All other operations, including add_all / add_all_at, are proved and run for every pair of families",
                        "size < 2^64 (size++ is modelled without wrap-around)",
                        "comparators, predicates and copy functions are pure functions"]}
