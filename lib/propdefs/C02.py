PROP = {"engines": [("hashtable", "default")],
        "level_text": "Theorems C02_* (Coq): for EVERY hash function and key comparator satisfying the stated hypotheses (comparator an equivalence, equal keys hash equally; "
                      "this includes a constant hash), every initial capacity, load factor and seed, every history of add/get/contains_key/remove/remove_all/size/"
                      "get_keys/get_values/foreach/iterator-removal from cc_hashtable_new_conf keeps the table invariant and refines an ideal association map on keys up to the "
                      "comparator (NULL key included); resize keeps exactly the same bindings; enumerations are permutations of the ideal bindings; CC_HashSet refines the ideal set. "
                      "The model is run against the compiled code (ASan/UBSan) on all histories of length <= 4 (5 thorough) over 3 keys + NULL at capacities 1 and 2 under a constant and a "
                      "low-entropy hash, on all iterator-removal programs over tables of size 0-4, on fault plans, and on random histories under the library's djb2 / MurmurHash3 / pointer hashes.",
        "assumptions": ["key_cmp is an equivalence relation and key_cmp(a,b)==0 implies hash(a)==hash(b) (the property's 'consistent comparators/hashes')",
                        "float products capacity*load_factor are exact rationals (dyadic load factors, capacity <= 2^31)",
                        "size+1 does not wrap (2^64 live entry blocks do not fit an address space)",
                        "the library's concrete hash functions are not modelled: they are universally quantified in the theorems and replaced by a stand-in in the model run, "
                        "where only order-independent observations are compared"]}
