PROP = {"engines": [("array", "stack"), ("deque", "queue")],
        "level_text": "Coq theorems: stack push/pop/peek on the array model are exactly LIFO on the abstract list (pop on empty: error, same stack; refused growth: unchanged); "
                      "queue enqueue/poll/peek refine the ideal FIFO list for all histories from the constructor (corollaries of the C01 and C05 refinement theorems, none of the "
                      "operations involved touches the known-defective cc_deque_add_at). Correspondence: all push/pop words of length <= 7 (10 thorough) at capacities 1-3 with "
                      "iteration, map, filter, zip on stacks; queue interleavings of the deque engine across growth and wrap-around.",
        "assumptions": ["cc_stack_filter builds its result with the default expansion factor (the array's factor is not accessible through the array API); documented in DESIGN.md"]}
