PROP = {"engines": [("dpool", "default")],
        "level_text": "Coq theorems about the executable pool model (every block inside a page the pool owns and disjoint from all live blocks, a fixed pool never exceeds its "
                      "size, expansion leaves older pages untouched, padded blocks start on the boundary relative to the page payload, accounting, reset = one empty page of the "
                      "initial size, reset/destroy release each page once) for all request sequences, sizes, factors and boundaries; bounds tests re-translated from the C source and proved equal to the model's; "
                      "model run against the compiled code with an independent overlap/ownership/alignment monitor in the harness.",
        "assumptions": ["the float product top_page_size * exp_factor is exact (dyadic factors, sizes < 2^24)",
                        "alignment is relative to the page payload, which starts 16 bytes into a block from the configured allocator: absolute alignment is guaranteed only for boundaries <= 16 (known finding for larger boundaries)",
                        "alignment_boundary >= 1 in padded mode (0 divides by zero: outside the documented contract)"]}
