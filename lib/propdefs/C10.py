PROP = {"engines": [("pqueue", "default")],
        "level_text": "Theorems C10_* (Coq, closed under the global context), for every comparator that is a total preorder with sign antisymmetry: from every state "
                      "satisfying the heap invariant (any size, capacity >= 1, factor > 1, buffer contents) every push/pop/top returns without fault, preserves the invariant, "
                      "top/pop yield an element of the held multiset that is maximal under the comparator, pop removes exactly that element (Permutation), push adds exactly the "
                      "pushed element or fails (ERR_ALLOC) leaving queue and ledger unchanged; lifted by induction to all histories from cc_pqueue_new_conf (C10_run_refines, "
                      "C10_run_conserves: held multiset = successful pushes minus successful pops) and to draining (C10_drain_sorted, C10_run_drain: non-increasing permutation "
                      "of what is held); the explicit fuel of sift-up/heapify provably suffices. The model transcribes cc_pqueue.c (index macros CC_PARENT/LEFT/RIGHT and nine branch "
                      "conditions re-translated from the source on every run and proved equal to the model's) and is run against the compiled code under ASan/UBSan on: every arrangement of every multiset of <= 6 "
                      "priorities over 3 values, every permutation of 5 and 6 distinct values, every push/pop word of length 8 over three value streams, capacities 1..9 x factors "
                      "{5/4,3/2,2,4,<=1}, sorted/reversed/all-equal streams of 200, every single allocation refusal (constructor and every growth), destroy_cb, malformed capacities, "
                      "and seeded random histories; statuses, priorities, sizes, ledger, and (model vs code) the out-values and the whole buffer prefix are compared after every operation.",
        "assumptions": ["exp_factor is modelled as the rational num/den and (size_t)(capacity*exp_factor) as capacity*num/den (exact for the dyadic factors used; float rounding is outside the model)",
                        "allocator side conditions of the theorems: capacity*8 < 2^64 at construction, limit*factor < 2^64 and limit < 2^64-16 where limit bounds the size of any granted request "
                        "(cc_pqueue multiplies capacities by sizeof(void*) without an overflow check; the model predicts the resulting out-of-bounds write for the absurd configurations in the trace set)",
                        "D11 (known, DESIGN.md): when (size_t)(capacity*factor) <= capacity a full queue cannot grow (push returns ERR_ALLOC forever, nothing is lost): C10_growth_stuck_refuted / "
                        "C10_push_grows_partial; the ideal bag accepts ERR_ALLOC from a push during which the allocator refused a request",
                        "ties may come out in any order: the ideal comparison is on priorities and on the multiset of popped values"]}
