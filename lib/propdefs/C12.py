PROP = {"engines": [("spool", "default")],
        "level_text": "Coq theorems C12_malloc/C12_calloc/C12_free_*/C12_reset/C12_accounting/C12_reachable: for every request size in the size_t domain, "
                      "every pool size and every history of malloc/calloc/free/reset, granted blocks lie inside the region above all live blocks (disjoint), "
                      "refusals change nothing, calloc blocks are zero, used+free = size and used = sum of live block lengths. The bounds tests are re-translated (and proved equal to the model's) "
                      "from cc_static_pool.c on every run; the model runs against the compiled code (canary bytes around the region, an independent overlap "
                      "monitor in the harness) on all op sequences of length <= 4 (5 thorough) over small pools plus random histories.",
        "assumptions": ["pointer arithmetic data_buf + offset + size does not overflow the address space",
                        "after a rollback the `high` cursor stays on the rolled-back block, so the block below it is not freeable (documented behaviour)"]}
