PROP = {"engines": [("rbuf", "default")],
        "level_text": "Theorems C19_run_refines/C19_step_refines (Coq): every enqueue/dequeue history on a ring buffer of any capacity >= 1 refines the bounded FIFO "
                      "(statuses, out-values, held items, size), no step faults; the enqueue branch conditions are re-translated from cc_ring_buffer.c on every run and proved equal to the model's, "
                      "and the model is run against the compiled code on all histories of length <= 9 (13 thorough) for capacities 1-4 plus random long histories.",
        "assumptions": ["capacity*8 < 2^64 (the buffer allocation size is representable)", "cc_rbuf_peek is a raw slot read and is outside the property"]}
