PROP = {"engines": [("tst", "default")],
        "level_text": "TBD",
        "assumptions": []}
