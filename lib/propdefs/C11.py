PROP = {"engines": [("tst", "default")],
        "level_text": "Theorems (Coq, Properties/C11.v) about a transcription of cc_tsttable.c that keeps node paths as pointers and threads the allocation ledger: "
                      "C11_step_refines / C11_run_refines (every add-or-replace/get/contains/remove/remove_all/size history from new_conf, any fault plan, refines an ideal "
                      "finite map on byte strings with exact statuses; a refused add is atomic), C11_inv_preserved (stored key = path, no dead branches, size = #end-of-word nodes), "
                      "C11_remove_frame, C11_size, C11_iteration_order / C11_enumeration / C11_iter_next (the arrival-direction automaton yields every present key exactly once, "
                      "in pre-order, within its fuel), C11_iter_remove (removal through the iterator removes exactly the yielded key and the advanced iterator stays valid on the pruned tree), "
                      "C11_empty_key_refuted (D30 witness), plus the C06/C08/C14/C16 families for this container. The model is run against the compiled code (ASan/UBSan) on every key set of size <= 3 "
                      "over {a,b}^<=3 in every insertion x removal order, every next/iter_remove program over those tables, random byte keys (bytes >= 128), boundary keys and "
                      "fault plans hitting every allocation of add and new_conf; size, get of every pool key, iterator and foreach contents, exact iteration order and the ledger are compared after every call.",
        "assumptions": ["keys are NUL-terminated byte strings; theorems are for non-empty keys (the empty key is known finding D30: ops add0/get0/has0/rm0)",
                        "char is signed (x86-64 gcc): bytes >= 128 order before bytes < 128",
                        "fewer than 2^64 - 1 keys (size + 1 does not wrap)",
                        "iterator theorems cover protocol-conforming use (iter_remove only after a successful iter_next, no table mutation through the table API while iterating); other uses are outside the library's contract and skipped by both executables",
                        "the key pointer stored in an entry is modelled by the key's bytes (the harness interns keys, so pointer identity = content identity)"]}
