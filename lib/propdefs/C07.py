PROP = {"engines": [("list", "iter", 3000), ("slist", "iter", 2500), ("array", "iter", 4000), ("sized", "iter", 2000), ("deque", "iter", 4000), ("hashtable", "iter", 2500), ("tst", "iter", 1500), ("treetable", "iter", 1500)],
        "level_text": "Coq theorems per engine relating the concrete iterator to an ideal cursor (next, fresh-iterator completeness at every fill level, remove/add/replace after a yield, "
                      "index, zip lockstep). Correspondence: all well-formed iterator programs (next/remove/add/replace/index, at most one structural change per yield) of length <= 4 "
                      "(5 thorough) over containers of size 0-4 in every layout class (empty, single, exactly full, wrapped, after earlier mutations), zip programs on pairs of "
                      "different lengths, iterator-removal drains of hash tables, TSTs and trees.",
        "assumptions": ["known finding D17: cc_deque_iter_add / cc_deque_zip_iter_add are correct only in the add_at branches classified sound by the model",
                        "iterator calls outside the contract (mutator without a preceding successful next, two structural changes per yield) are compared model-vs-code only"]}
