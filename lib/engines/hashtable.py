"""hashtable engine: CC_HashTable (src/cc_hashtable.c) and the adapter CC_HashSet (src/cc_hashset.c)."""
import itertools
DIR = "Hash"
MODELS = ["Hash/HashModel.vo"]
BIGV = [0, 1, 2**31, 2**63, 2**64 - 2, 2**64 - 1]
CAPS = [0, 1, 2, 3, 16]
LFS = ["1/4", "1/2", "3/4", "1/1"]
# (hash kind, key kind): the library's own hash functions and the adversarial ones
REAL = [("string", "str"), ("general", "blk"), ("pointer", "ptr")]
ADV = [("const0", "ptr"), ("mod4", "ptr"), ("id", "ptr"), ("const0", "str"), ("mod4", "str"), ("mod4", "blk"), ("id", "str")]

def hdr(kind, cap, lf, hk, kk, pool, seed=0, mem="conf", plan=None):
    h = "T ? hashtable %s cap=%s lf=%s hash=%s keys=%s seed=%d mem=%s pool=%s" % (
        kind, cap, lf, hk, kk, seed, mem, ",".join(str(k) for k in pool))
    if plan is not None:
        h += " plan=" + plan
    return h

def pool_for(kk, rng=None, n=6):
    """Keys that collide in the low bits (multiples of 4, 8, 16), the NULL key, and - for string / block
    keys - aliases w+1000 that are equal to w but different pointers."""
    base = [0, 4, 8, 16, 5, 21, 32, 64, 3, 7, 12]
    if rng is not None:
        base = [0] + rng.sample(base[1:], min(n, len(base) - 1))
    if kk != "ptr":
        base = base + [k + 1000 for k in base[1:3]]
    elif rng is not None and rng.random() < 0.3:
        base = base + [2**32 + 4, 2**63, 2**64 - 1]       # pointer keys are never dereferenced: any word is a key
    return base

def rand_ops(rng, kind, pool, n, p_add=0.5, real_hash=False):
    ops = []
    val = 100
    for _ in range(n):
        r = rng.random()
        k = rng.choice(pool)
        if r < p_add:
            val += 1
            v = rng.choice(BIGV) if rng.random() < 0.1 else val
            ops.append("add %d" % k if kind == "set" else "add %d %d" % (k, v))
        elif r < p_add + 0.22:
            ops.append("remove %d" % k)
        elif r < p_add + 0.27:
            ops.append("contains %d" % k)
        elif r < p_add + 0.31 and kind == "table":
            ops.append("get %d" % k)
        elif r < p_add + 0.33:
            ops.append("size")
        elif r < p_add + 0.36:
            ops.append("remove_all")
        elif r < p_add + 0.40:
            ops.append(rng.choice(["get_keys", "get_values", "foreach_key", "foreach_value"]) if kind == "table" else "foreach")
        else:
            rm = [k2 for k2 in pool if rng.random() < 0.3]
            ops.append("iter " + (",".join(str(x) for x in rm) if rm else "-"))
    return ops

def exhaustive(tier):
    """All histories of length <= L over 3 keys + NULL (add with a fresh value / remove / remove_all) at
    capacities 1 and 2, hash = const0 and mod4; every prefix is observed line by line."""
    out = []
    L = 4 if tier == "quick" else 5
    keys = [0, 4, 8, 5]          # mod 4: 0,0,1 - 4 and 8 share every bucket with NULL, 5 leaves it at capacity >= 2
    alphabet = [("add", k) for k in keys] + [("remove", k) for k in keys] + [("remove_all", None)]
    for cap in (1, 2):
        for hk in ("const0", "mod4"):
            for w in itertools.product(alphabet, repeat=L):
                # skip words that start with a removal from the empty table twice (covered by shorter prefixes elsewhere)
                if w[0][0] != "add" and w[1][0] != "add":
                    continue
                ops = []; v = 10
                for name, k in w:
                    if name == "add":
                        v += 1; ops.append("add %d %d" % (k, v))
                    elif name == "remove":
                        ops.append("remove %d" % k)
                    else:
                        ops.append("remove_all")
                out.append([hdr("table", cap, "3/4", hk, "ptr", keys)] + ops + ["END"])
    return out

def iterator_programs(tier):
    """Tables of size 0-4 (every subset of 4 keys incl. NULL, two insertion orders), every subset removed
    through the iterator, then a second full traversal and re-insertion."""
    out = []
    keys = [0, 4, 8, 5]
    for cap, hk in ((1, "const0"), (2, "mod4"), (4, "mod4"), (16, "id")):
        for present in itertools.product([0, 1], repeat=4):
            ks = [k for k, p in zip(keys, present) if p]
            for order in ((ks, list(reversed(ks))) if len(ks) > 1 else (ks,)):
                for rm in itertools.product([0, 1], repeat=len(ks)):
                    rml = [k for k, r in zip(ks, rm) if r]
                    # an absent key in the removal list must be ignored
                    rml2 = rml + [k for k in keys if k not in ks][:1]
                    ops = ["add %d %d" % (k, 50 + i) for i, k in enumerate(order)]
                    ops.append("iter " + (",".join(str(x) for x in rml2) if rml2 else "-"))
                    ops.append("iter -")
                    ops += ["add %d 99" % k for k in rml[:2]]
                    out.append([hdr("table", cap, "3/4", hk, "ptr", keys)] + ops + ["END"])
                    if cap == 2:
                        sops = [o.rsplit(" ", 1)[0] if o.startswith("add") else o for o in ops]
                        out.append([hdr("set", cap, "1/2", hk, "ptr", keys)] + sops + ["END"])
    return out

def fault_plans(rng, tier):
    out = []
    keys = [0, 4, 8, 5, 12]
    base = ["add 4 1", "add 8 2", "add 0 3", "add 5 4", "get_keys", "add 12 5", "get_values", "remove 8", "add 8 6", "iter 4", "add 4 7"]
    sbase = ["add 4", "add 8", "add 0", "add 5", "foreach", "add 12", "remove 8", "add 8", "iter 4", "add 4"]
    # constructor: every refusal pattern of the 2 (table) / 3 (set) requests
    for plan in ("0", "10", "11", "110", "100", "101", "111"):
        out.append([hdr("table", 2, "1/2", "mod4", "ptr", keys, plan=plan)] + base[:3] + ["END"])
        out.append([hdr("set", 2, "1/2", "mod4", "ptr", keys, plan=plan)] + sbase[:3] + ["END"])
        out.append([hdr("table", 2, "1/2", "string", "str", keys, mem="libc", plan=plan)] + base[:3] + ["END"])
    # one refusal at every position of the request sequence (resize refused, entry refused, array header / buffer refused)
    for cap, lf in ((1, "1/1"), (1, "1/2"), (2, "3/4"), (4, "1/4")):
        for k in range(2, 26):
            plan = "1" * k + "0"
            out.append([hdr("table", cap, lf, "mod4", "ptr", keys, plan=plan)] + base + ["END"])
            out.append([hdr("set", cap, lf, "const0", "ptr", keys, plan="1" + plan)] + sbase + ["END"])
        for k in range(2, 20, 3):
            out.append([hdr("table", cap, lf, "general", "blk", keys, plan="1" * k + "00" + "1" * 3 + "0")] + base + ["END"])
    n = 150 if tier == "quick" else 3000
    for _ in range(n):
        kind = rng.choice(["table", "table", "set"])
        hk, kk = rng.choice(REAL + ADV)
        pool = pool_for(kk, rng)
        plan = "11" + ("1" if kind == "set" else "") + "".join("1" if rng.random() < 0.8 else "0" for _ in range(rng.randint(1, 40)))
        ops = rand_ops(rng, kind, pool, rng.randint(5, 40), p_add=0.6)
        out.append([hdr(kind, rng.choice(CAPS), rng.choice(LFS), hk, kk, pool, seed=rng.choice([0, 1, 0xFFFFFFFF]),
                        mem=rng.choice(["conf", "libc"]), plan=plan)] + ops + ["END"])
    return out

def generate(rng, tier, mode="default"):
    out = []
    out += exhaustive(tier)
    out += iterator_programs(tier)
    out += fault_plans(rng, tier)
    # default constructors
    for kind in ("table", "set"):
        ops = rand_ops(rng, kind, [0, 1, 2, 3, 1001, 17, 33], 60)
        out.append(["T ? hashtable %s default pool=0,1,2,3,1001,17,33" % kind] + ops + ["END"])
    # every configuration once with a directed growth/shrink history, then random histories
    for hk, kk in REAL + ADV:
        for cap in CAPS:
            for lf in LFS:
                pool = pool_for(kk)
                grow = [k for k in pool]
                ops = []
                for i, k in enumerate(grow):
                    ops.append("add %d %d" % (k, 200 + i))
                    if i % 3 == 2:
                        ops.append("remove %d" % grow[i - 1])      # interleaved removals during growth
                ops += ["get_keys", "get_values", "foreach_key", "foreach_value"]
                ops += ["add %d %d" % (k, 300 + i) for i, k in enumerate(grow)]     # replace every value
                if kk != "ptr":
                    ops += ["add %d 400" % (grow[1] + 1000), "get %d" % grow[1], "remove %d" % (grow[2] + 1000), "get_keys"]
                ops += ["iter %d,%d" % (grow[1], grow[3]), "remove 0", "remove 0", "contains 0", "add 0 0", "contains 0", "get 0", "remove_all", "size", "add 0 1", "iter 0"]
                out.append([hdr("table", cap, lf, hk, kk, pool + [999], seed=cap * 7)] + ops + ["END"])
    n = 500 if tier == "quick" else 12000
    for _ in range(n):
        kind = rng.choice(["table", "table", "table", "set"])
        hk, kk = rng.choice(REAL + REAL + ADV)
        pool = pool_for(kk, rng, n=rng.randint(3, 9))
        ops = rand_ops(rng, kind, pool, rng.randint(1, 90), p_add=rng.choice([0.35, 0.5, 0.6, 0.75]))
        out.append([hdr(kind, rng.choice(CAPS + [5, 8, 17, 100] if rng.random() < 0.1 else CAPS), rng.choice(LFS), hk, kk, pool,
                        seed=rng.choice([0, 1, 12345, 0xFFFFFFFF]), mem=rng.choice(["conf", "libc"]))] + ops + ["END"])
    # the general (murmur) hash with fixed key lengths that are NOT a multiple of 4 (its tail cases), looked up through
    # a second buffer holding the same key bytes followed by different bytes: the hash must depend on exactly the key
    for klen in (1, 2, 3, 5, 6, 7, 9, 11):
        for cap in (2, 16):
            ks = [5, 9, 12, 200] if klen > 1 else [5, 9, 12, 200 % 256]
            ops = ["add %d %d" % (k, 100 + j) for j, k in enumerate(ks)]
            ops += ["get %d" % (k + 1000) for k in ks] + ["has %d" % (ks[0] + 1000), "add %d 77" % (ks[1] + 1000), "size", "remove %d" % (ks[2] + 1000), "get %d" % ks[2], "get_keys", "iter %d" % ks[0]]
            out.append([hdr("table", cap, "3/4", "general", "blk", ks + [k + 1000 for k in ks]) + " klen=%d" % klen] + ops + ["END"])
            out.append([hdr("set", cap, "3/4", "general", "blk", ks + [k + 1000 for k in ks]) + " klen=%d" % klen] + ["add %d" % k for k in ks] + ["has %d" % (k + 1000) for k in ks] + ["remove %d" % (ks[0] + 1000), "size", "END"])
    return out
