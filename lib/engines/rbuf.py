"""rbuf engine: CC_Rbuf (src/cc_ring_buffer.c)."""
import itertools
DIR = "Rbuf"
MODELS = ["Rbuf/RbufModel.vo"]
BIG = [0, 1, 2**31, 2**63, 2**64 - 2, 2**64 - 1]

# ---------------------------------------------------------------------------------------------- rbuf
def generate(rng, tier, mode="default"):
    out = []
    L = 9 if tier == "quick" else 13
    caps = [1, 2, 3, 4] if tier == "quick" else [1, 2, 3, 4, 5]
    # exhaustive: every enqueue/dequeue word up to length L (shorter words are prefixes: observed line by line)
    for cap in caps:
        for w in itertools.product("ed", repeat=L):
            v = 0; ops = []
            for ch in w:
                if ch == "e":
                    v += 1; ops.append("enq %d" % (cap * 100 + v))
                else:
                    ops.append("deq")
            out.append(["T ? rbuf %d conf" % cap] + ops + ["END"])
    # constructor under every refusal pattern, both allocator families, default capacity
    for mem in ("conf", "libc"):
        for plan in ("", "0", "10", "11", "01"):
            out.append(["T ? rbuf default %s %s" % (mem, plan), "enq 1", "enq 2", "deq", "END"])
            out.append(["T ? rbuf 3 %s %s" % (mem, plan), "enq 1", "deq", "deq", "END"])
    # random long histories, random capacities, boundary values
    n = 300 if tier == "quick" else 5000
    for _ in range(n):
        cap = rng.choice(["default", 1, 2, 3, 5, 7, 8, 10, 16, 33])
        ops = []
        p_enq = rng.choice([0.3, 0.5, 0.6, 0.8])
        for _ in range(rng.randint(1, 80)):
            if rng.random() < p_enq:
                ops.append("enq %d" % (rng.choice(BIG) if rng.random() < 0.15 else rng.randint(0, 999)))
            else:
                ops.append("deq")
        out.append(["T ? rbuf %s %s" % (cap, rng.choice(["conf", "libc"]))] + ops + ["END"])
    return out

