"""spool engine: CC_StaticPool (src/memory/cc_static_pool.c)."""
import itertools
DIR = "SPool"
MODELS = ["SPool/SPoolModel.vo"]

def generate(rng, tier, mode="default"):
    out = []
    SIZES = lambda size: sorted(set([0, 1, 3, 4, 8, size, size + 1, max(size - 1, 0), 2**64 - 1, 2**63]))
    # exhaustive: ALL sequences of 3 operations over the alphabet (quick and thorough), then sequences of 4 (5 thorough)
    # sampled in quick and complete in thorough; the alphabet has zero-size, exact-fit and over-size requests, the
    # zero-size calloc forms, frees of the latest and of stale pointers
    def alphabet(size):
        a = ["malloc %d" % n for n in (0, 3, 8, size, size + 1)] + ["calloc 2 4", "calloc 1 0", "calloc 0 5", "reset", "write 255",
             "free 0", "free 3", "free 8", "free 11"]
        return list(dict.fromkeys(a))
    deep = []
    for size in ([0, 1, 8, 16] if tier == "quick" else [0, 1, 2, 7, 8, 16]):
        for offset in ([0, 3] if tier == "quick" else [0, 1, 3]):
            al = alphabet(size)
            for w in itertools.product(al, repeat=3):
                out.append(["T ? spool size=%d offset=%d" % (size, offset)] + list(w) + ["malloc 2", "END"])
            for w in itertools.product(al, repeat=(4 if tier == "quick" else 5)):
                deep.append(["T ? spool size=%d offset=%d" % (size, offset)] + list(w) + ["END"])
    if tier == "quick":
        rng.shuffle(deep); deep = deep[:4000]
    elif len(deep) > 400000:
        rng.shuffle(deep); deep = deep[:400000]
    out += deep
    # random long histories with mixed sizes, frees of the latest and of stale pointers
    n = 600 if tier == "quick" else 8000
    for _ in range(n):
        size = rng.choice([0, 1, 5, 16, 31, 64, 100, 255])
        ops = []; offs = [0]; used = 0
        for _ in range(rng.randint(1, 40)):
            r = rng.random()
            if r < 0.45:
                k = rng.choice(SIZES(size)) if rng.random() < 0.3 else rng.randint(0, max(1, size // 3))
                ops.append("malloc %d" % k)
                if k <= size - used: offs.append(used); used += k
            elif r < 0.6:
                c, k = rng.choice([(1, 4), (2, 3), (0, 5), (3, 0), (2**63, 2), (2**32, 2**32), (2**64 - 1, 2**64 - 1), (4, 4)])
                ops.append("calloc %d %d" % (c, k))
                if c * k <= size - used: offs.append(used); used += c * k
            elif r < 0.8:
                ops.append("free %d" % (offs[-1] if rng.random() < 0.6 else rng.choice(offs + [rng.randint(0, size + 2)])))
                # do not track the rollback precisely: later mallocs just use sizes
            elif r < 0.9:
                ops.append("write %d" % rng.randint(1, 255))
            else:
                ops.append("reset"); offs = [0]; used = 0
        out.append(["T ? spool size=%d offset=%d" % (size, rng.choice([0, 1, 2, 3, 7]))] + ops + ["END"])
    return out
