"""treetable engine: CC_TreeTable (src/cc_treetable.c) and CC_TreeSet (src/cc_treeset.c).
Header:  T ? treetable <table|set> <num|rev|q4> <conf|libc> <full|lite> <pool k1,k2,..|-> [plan=0110]
modes:   map (C03: ordered-map behaviour), bal (C17: balance / comparator counts), default = both."""
import itertools
DIR = "Tree"
MODELS = ["Tree/TreeModel.vo"]
BIG = [0, 1, 2**31, 2**63, 2**64 - 2, 2**64 - 1]

# ----------------------------------------------------------------------------------------------
# A plain CLRS insertion, used ONLY to group insertion orders that build the same tree, so that the
# removal phase of the exhaustive scope is run once per distinct tree (the insertion phase itself is
# run for every order and compared with the model, shape included).
def _rb_insert_shape(order):
    # nodes: dict key -> [color, left, right, parent]; None = sentinel
    col = {}; left = {}; right = {}; par = {}
    root = None
    def rot_l(x):
        nonlocal root
        y = right[x]; right[x] = left[y]
        if left[y] is not None: par[left[y]] = x
        par[y] = par[x]
        if par[x] is None: root = y
        elif x == left[par[x]]: left[par[x]] = y
        else: right[par[x]] = y
        left[y] = x; par[x] = y
    def rot_r(x):
        nonlocal root
        y = left[x]; left[x] = right[y]
        if right[y] is not None: par[right[y]] = x
        par[y] = par[x]
        if par[x] is None: root = y
        elif x == right[par[x]]: right[par[x]] = y
        else: left[par[x]] = y
        right[y] = x; par[x] = y
    for k in order:
        y = None; x = root
        while x is not None:
            y = x; x = left[x] if k < x else right[x]
        col[k] = "R"; left[k] = None; right[k] = None; par[k] = y
        if y is None: root = k
        elif k < y: left[y] = k
        else: right[y] = k
        z = k
        while par[z] is not None and col[par[z]] == "R":
            p = par[z]; g = par[p]
            if g is None: break
            if p == left[g]:
                u = right[g]
                if u is not None and col[u] == "R":
                    col[p] = "B"; col[u] = "B"; col[g] = "R"; z = g
                else:
                    if z == right[p]: z = p; rot_l(z)
                    col[par[z]] = "B"; col[par[par[z]]] = "R"; rot_r(par[par[z]])
            else:
                u = left[g]
                if u is not None and col[u] == "R":
                    col[p] = "B"; col[u] = "B"; col[g] = "R"; z = g
                else:
                    if z == left[p]: z = p; rot_r(z)
                    col[par[z]] = "B"; col[par[par[z]]] = "R"; rot_l(par[par[z]])
        col[root] = "B"
    def sh(n):
        return "." if n is None else "(%s %d %s %s)" % (col[n], n, sh(left[n]), sh(right[n]))
    return sh(root)

def _hdr(kind="table", cmp="num", mem="conf", obs="full", pool=None, plan=None):
    p = ",".join(str(k) for k in pool) if pool else "-"
    return "T ? treetable %s %s %s %s %s%s" % (kind, cmp, mem, obs, p, (" plan=" + plan) if plan is not None else "")

def _exhaustive(out, nk, nr):
    keys = [10 * (i + 1) for i in range(nk)]
    pool = keys + [5]
    reps = {}
    # (1) every insertion order of every prefix length (a trace shows every prefix), one trace per order
    for n in range(1, nk + 1):
        for order in itertools.permutations(keys[:n]):
            if n == nk:
                out.append([_hdr(pool=pool)] + ["add %d %d" % (k, k + 1) for k in order] + ["END"])
            reps.setdefault((n, _rb_insert_shape(order)), order)
    # (2) for every distinct tree: every removal order of <= nr of its keys (by key, and one first/last/iterator variant)
    for (n, _), order in sorted(reps.items()):
        ks = keys[:n]
        ins = ["add %d %d" % (k, k + 1) for k in order]
        for rem in itertools.permutations(ks, min(nr, n)):
            out.append([_hdr(pool=pool)] + ins + ["rm %d" % k for k in rem] + ["END"])
    return len(reps)

def _drain_variants(out, rng, sizes):
    for n in sizes:
        keys = list(range(1, n + 1))
        for how in ("asc", "desc", "rand"):
            order = keys[:] if how == "asc" else keys[::-1] if how == "desc" else rng.sample(keys, n)
            ins = ["add %d %d" % (k, 100 + k) for k in order]
            pool = keys[:8]
            out.append([_hdr(pool=pool)] + ins + ["rmf"] * (n + 1) + ["END"])
            out.append([_hdr(pool=pool)] + ins + ["rml"] * (n + 1) + ["END"])
            alt = []
            for i in range(n + 2): alt.append("rmf" if i % 2 == 0 else "rml")
            out.append([_hdr(pool=pool)] + ins + alt + ["END"])
            # iterator drain: remove every yielded entry; and every second one; double removal reports not-found
            it = ["it"]
            for i in range(n + 1): it += ["next", "irm"]
            out.append([_hdr(pool=pool)] + ins + it + ["irm", "next", "END"])
            it = ["it"]
            for i in range(n + 1): it += ["next"] + (["irm", "irm"] if i % 2 == 0 else [])
            out.append([_hdr(pool=pool)] + ins + it + ["END"])
            it = ["it"]
            for i in range(n + 1): it += ["next"] + (["irm"] if i % 3 == 1 else [])
            out.append([_hdr(kind="set", pool=pool)] + ["add %d" % k for k in order] + it + ["END"])

TABLE_Q = ["get %d", "has %d", "gt %d", "lt %d"]
def _random_mixed(out, rng, n, kind):
    for _ in range(n):
        nkeys = rng.choice([3, 5, 8, 12, 20])
        cmpk = rng.choice(["num", "num", "rev", "q4"])
        keyspace = [rng.choice(BIG) if rng.random() < 0.1 else rng.randint(0, 3 * nkeys) for _ in range(nkeys)]
        keyspace = sorted(set(keyspace))
        pool = keyspace[:10]
        ops = []
        p_add = rng.choice([0.35, 0.5, 0.7])
        for _ in range(rng.randint(5, 70)):
            k = rng.choice(keyspace)
            r = rng.random()
            if kind == "table":
                if r < p_add: ops.append("add %d %d" % (k, rng.choice([0, 1, 7, rng.randint(0, 99)])))
                elif r < p_add + 0.18: ops.append("rm %d" % k)
                elif r < p_add + 0.23: ops.append(rng.choice(["rmf", "rml"]))
                elif r < p_add + 0.24: ops.append("clear")
                elif r < p_add + 0.30: ops.append(rng.choice(["fk", "lk", "fv", "lv", "size", "eachk", "eachv", "hasv %d" % rng.choice([0, 1, 7])]))
                elif r < p_add + 0.36: ops += ["it"] + rng.choice([["next"], ["next", "next"], ["next", "irm", "next"], ["next", "next", "irm", "irm", "next", "next"]])
                elif r < p_add + 0.40: ops.append(rng.choice(["next", "irm"]))
                else: ops.append(rng.choice(TABLE_Q) % k)
            else:
                if r < p_add: ops.append("add %d" % k)
                elif r < p_add + 0.2: ops.append("rm %d" % k)
                elif r < p_add + 0.22: ops.append("clear")
                elif r < p_add + 0.30: ops.append(rng.choice(["first", "last", "size", "each"]))
                elif r < p_add + 0.36: ops += ["it"] + rng.choice([["next"], ["next", "next"], ["next", "irm", "next"], ["next", "next", "irm", "irm", "next"]])
                else: ops.append(rng.choice(["has %d", "gt %d", "lt %d"]) % k)
        out.append([_hdr(kind=kind, cmp=cmpk, mem=rng.choice(["conf", "conf", "libc"]), pool=pool)] + ops + ["END"])

def _long_history(rng, how, n, obs, removals=True):
    """n insertions in the given key order (sorted / reversed / zig-zag / random), interleaved lookups, then removals."""
    if how == "asc": ks = list(range(1, n + 1))
    elif how == "desc": ks = list(range(n, 0, -1))
    elif how == "zig": ks = [(i // 2 + 1) if i % 2 == 0 else (n - i // 2) for i in range(n)]
    else: ks = rng.sample(range(1, 4 * n), n)
    ops = []
    step = max(1, n // 50)
    for i, k in enumerate(ks):
        ops.append("add %d %d" % (k, i))
        if i % step == 0:
            ops.append("get %d" % ks[rng.randrange(i + 1)])
            ops.append("get %d" % (4 * n + 7))          # absent, beyond the maximum
            ops.append("has 0")                          # absent, below the minimum
    if removals:
        rem = ks[:] if rng.random() < 0.5 else rng.sample(ks, n)
        for i, k in enumerate(rem[: (3 * n) // 4]):
            r = i % 7
            if r == 5: ops.append("rmf")
            elif r == 6: ops.append("rml")
            else: ops.append("rm %d" % k)
            if i % step == 0: ops.append("get %d" % rem[-1])
    pool = None if obs != "full" else sorted(ks)[:6]
    return [_hdr(obs=obs, pool=pool)] + ops + ["END"]

def generate(rng, tier, mode="default"):
    out = []
    quick = (tier == "quick")
    # ---- smoke / pinned behaviour
    out.append([_hdr(pool=[1, 2, 3]), "add 2 20", "add 1 10", "add 3 30", "get 2", "gt 2", "gt 3", "lt 1", "lt 2", "gt 7", "rm 2", "rm 2", "rmf", "rml", "rml", "rmf", "END"])
    # empty-table queries (table and set), NULL key, boundary keys
    empty_t = ["get 5", "has 5", "hasv 0", "rm 5", "rmf", "rml", "clear", "fk", "lk", "fv", "lv", "gt 5", "lt 5", "size", "eachk", "eachv", "it", "next", "irm"]
    out.append([_hdr(pool=[0, 5])] + empty_t + ["add 0 0", "get 0", "rm 0"] + empty_t + ["END"])
    empty_s = ["has 5", "rm 5", "clear", "first", "last", "gt 5", "lt 5", "size", "each", "it", "next"]
    out.append([_hdr(kind="set", pool=[0, 5])] + empty_s + ["add 0", "has 0", "first", "rm 0"] + empty_s + ["END"])
    out.append([_hdr(pool=BIG)] + ["add %d %d" % (k, k) for k in BIG] + ["gt %d" % k for k in BIG] + ["lt %d" % k for k in BIG] + ["rm %d" % k for k in BIG[::2]] + ["END"])
    # replace of existing keys (value changes, shape and size do not; under q4 the stored key stays)
    out.append([_hdr(pool=[1, 2, 3]), "add 1 1", "add 2 2", "add 3 3", "add 2 22", "add 1 11", "add 3 33", "get 1", "get 2", "get 3", "hasv 22", "hasv 2", "END"])
    out.append([_hdr(cmp="q4", pool=[1, 2, 4, 5, 9]), "add 5 1", "add 1 2", "add 9 3", "add 6 4", "add 2 5", "get 4", "get 7", "gt 0", "gt 4", "lt 8", "rm 7", "rm 3", "END"])
    # ---- fault plans: constructor (table: 2 allocations, set: 3) and add (every node allocation)
    for plan in ("0", "10", "11"):
        out.append([_hdr(plan=plan, pool=[1]), "add 1 1", "get 1", "END"])
        out.append([_hdr(mem="libc", plan=plan, pool=[1]), "add 1 1", "get 1", "END"])
    for plan in ("0", "10", "110", "111"):
        out.append([_hdr(kind="set", plan=plan, pool=[1]), "add 1", "has 1", "END"])
        out.append([_hdr(kind="set", mem="libc", plan=plan, pool=[1]), "add 1", "has 1", "END"])
    ins = [4, 2, 6, 1, 3, 5, 7, 8, 9]
    for nfail in range(len(ins)):
        for kind, npre in (("table", 2), ("set", 3)):
            plan = "1" * (npre + nfail) + "0" + "1" * rng.randint(0, 2) + "0"
            ops = []
            for k in ins:
                ops.append(("add %d %d" % (k, k)) if kind == "table" else ("add %d" % k))
            ops += [o for k in ins for o in ((("add %d %d" % (k, k + 50)) if kind == "table" else ("add %d" % k)),)]   # retries: replace or insert
            out.append([_hdr(kind=kind, plan=plan, pool=ins[:6])] + ops + ["rm 4", "END"])
    for _ in range(20 if quick else 200):
        plan = "".join(rng.choice("1110") for _ in range(rng.randint(3, 25)))
        ks = [rng.randint(1, 15) for _ in range(rng.randint(3, 20))]
        kind = rng.choice(["table", "set"])
        ops = []
        for k in ks:
            r = rng.random()
            if r < 0.7: ops.append(("add %d %d" % (k, k)) if kind == "table" else ("add %d" % k))
            elif r < 0.9: ops.append("rm %d" % k)
            else: ops.append("has %d" % k)
        out.append([_hdr(kind=kind, plan=plan, pool=sorted(set(ks))[:8])] + ops + ["END"])
    # ---- exhaustive small scope
    if quick: _exhaustive(out, 6, 3)
    else: _exhaustive(out, 7, 4)
    # ---- drains
    _drain_variants(out, rng, [1, 2, 3, 4, 5, 7, 10] if quick else [1, 2, 3, 4, 5, 6, 7, 8, 10, 13, 16, 25])
    # ---- random mixed histories over small colliding key pools
    nmix = 250 if quick else 4000
    _random_mixed(out, rng, nmix, "table")
    _random_mixed(out, rng, nmix // 3, "set")
    # ---- long sorted / reversed / zig-zag / random histories
    longs = []
    for how in ("asc", "desc", "zig", "rand"):
        longs.append(_long_history(rng, how, 120 if quick else 400, "full"))
        longs.append(_long_history(rng, how, 1000, "lite"))
        if mode in ("bal", "default") or not quick:
            longs.append(_long_history(rng, how, 4000, "lite"))
        if mode in ("bal", "default"):
            # real allocator, constant ledger token, OCaml Map as the ideal object (see d_treetable.ml)
            longs.append(_long_history(rng, how, 10000 if quick else 100000, "huge"))
    # spread the long traces over the list (the runner splits the list into contiguous chunks, one per core)
    for i, t in enumerate(longs):
        out.insert((i * len(out)) // len(longs), t)
    return out
