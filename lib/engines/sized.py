"""sized engine: CC_ArraySized (src/sized/cc_array_sized.c), run against the CC_Array model (coq/Array):
an element of esz bytes is the little-endian image of a number below 256^esz."""
import itertools, re
from engines import array as A
DIR = "Array"
MODELS = ["Array/ArrayModel.vo"]
DRIVER = "d_array.ml"
SKIP = re.compile(r"\b(contains_value|destroy_cb)\b|kind=stack|\bs\d\b")

def generate(rng, tier, mode="default"):
    out = []
    base = A.generate(rng, tier, mode)
    import engines as E
    if mode in E.MODE_FILTERS:
        # a cross-cutting property asks for one aspect: select it before the quick-tier cut below, not after
        sel = [t for t in base if E.MODE_FILTERS[mode](t)]
        if len(sel) >= 20: base = sel
    for t in base:
        if SKIP.search(t[0]) or any(SKIP.search(l) for l in t[1:]):
            continue
        if re.search(r"cap=\d{11,}|ef=\d{9,}", t[0]):
            continue          # byte sizes depend on the element size; the sized engine has its own huge-capacity traces below
        esz = rng.choice([1, 1, 3, 8])
        if re.search(r"ef=(3/2|5/4)", t[0]):
            esz = 8      # growth can get stuck (D11): whether the library then still asks the allocator depends on the
                         # element size (the request's byte size is representable for small elements); the model has 8-byte slots
        top = 256 ** esz
        ok = True
        lines = []
        for l in t[1:]:
            toks = l.replace("copy_deep", "copy_shallow").split()      # CC_ArraySized has one copy function
            # element arguments must fit the element size; index arguments are left alone
            if len(toks) >= 3 and toks[1] in ("add", "add_at", "replace_at", "remove", "index_of", "contains", "replace") or \
               (len(toks) >= 3 and toks[0][0] in "iz" and toks[1] in ("add", "replace")):
                k = 2
                nvals = 2 if toks[0][0] == "z" else 1
                for j in range(k, min(k + nvals, len(toks))):
                    toks[j] = str(int(toks[j]) % top)
            lines.append(" ".join(toks))
        h = t[0].split()
        h[2] = "sized"
        h.insert(3, "esz=%d" % esz)
        out.append([" ".join(h)] + lines)
    if tier == "quick":
        rng.shuffle(out)
        out = [t for t in out if " default" in t[0]] + [t for t in out if " default" not in t[0]][:6000]
    # elements that share their low-order bytes up to a zero byte (0, 256, 512, 65536, ...): equality must look at
    # every byte of the element, not stop at the first zero
    for esz in (2, 3, 8):
        vals = [7, 256, 0, 9, 512, 65536 % (256 ** esz), 1, 257]
        for probe in (0, 256, 512, 1, 65536 % (256 ** esz)):
            out.append(["T ? sized esz=%d cap=4 ef=2/1 mem=conf" % esz] + ["h0 add %d" % v for v in vals]
                       + ["h0 index_of %d" % probe, "h0 contains %d" % probe, "h0 remove %d" % probe, "h0 index_of %d" % probe, "h0 size", "END"])
    # capacities around SIZE_MAX / element_size: the constructor refuses what the array model (8-byte slots) refuses
    # only when esz = 8, so these traces use esz=8; for the other sizes see big() in the harness notes
    for cap in (2**61 - 1, 2**61, 2**61 + 1, 2**62, 2**63, 2**64 - 3, 2**64 - 1):
        for ef in ("2/1", "3/2"):
            out.append(["T ? sized esz=8 cap=%d ef=%s mem=conf" % (cap, ef), "h0 add 5", "h0 add_at 6 0", "h0 size", "h0 get_last", "h0 destroy", "END"])
    for cap in (1, 2, 4):
        for ef in ("2305843009213693952/1", "1152921504606846976/1", "4611686018427387904/3"):
            out.append(["T ? sized esz=8 cap=%d ef=%s mem=conf" % (cap, ef)] + ["h0 add %d" % (16 + k) for k in range(cap + 2)] + ["h0 size", "h0 get_last", "END"])
    return out
