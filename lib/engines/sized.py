"""sized engine: CC_ArraySized (src/sized/cc_array_sized.c), run against the CC_Array model (coq/Array):
an element of esz bytes is the little-endian image of a number below 256^esz."""
import itertools, re
from engines import array as A
DIR = "Array"
MODELS = ["Array/ArrayModel.vo"]
DRIVER = "d_array.ml"
SKIP = re.compile(r"\b(reduce|contains_value|copy_deep|destroy_cb)\b|kind=stack|\bs\d\b")

def generate(rng, tier, mode="default"):
    out = []
    base = A.generate(rng, tier, mode)
    for t in base:
        if SKIP.search(t[0]) or any(SKIP.search(l) for l in t[1:]):
            continue
        esz = rng.choice([1, 1, 3, 8])
        top = 256 ** esz
        ok = True
        lines = []
        for l in t[1:]:
            toks = l.split()
            # element arguments must fit the element size; index arguments are left alone
            if len(toks) >= 3 and toks[1] in ("add", "add_at", "replace_at", "remove", "index_of", "contains", "replace") or \
               (len(toks) >= 3 and toks[0][0] in "iz" and toks[1] in ("add", "replace")):
                k = 2
                nvals = 2 if toks[0][0] == "z" else 1
                for j in range(k, min(k + nvals, len(toks))):
                    toks[j] = str(int(toks[j]) % top)
            lines.append(" ".join(toks))
        h = t[0].split()
        h[2] = "sized"
        h.insert(3, "esz=%d" % esz)
        out.append([" ".join(h)] + lines)
    if tier == "quick":
        rng.shuffle(out); out = out[:6000]
    return out
