"""tst engine: CC_TSTTable (src/cc_tsttable.c).

Trace language:  T <id> tst <conf|libc> pool=<k,k,...> [plan=<bits>]
  add <k> <v> | get <k> | has <k> | rm <k> | clear | size | iter | next | irm | END
  add0 <v> | get0 | has0 | rm0      the same four operations on the empty key ""
Keys are lowercase hex byte strings.  `next`/`irm` act on the one trace-level iterator created by `iter`; both
executables skip them (print SKIP) when the iterator protocol forbids the call (no iterator, table changed through
the table API since `iter`, `irm` twice without a `next`), so every sub-trace of a trace is again a valid trace.
"""
import itertools

DIR = "Tst"
MODELS = ["Tst/TstModel.vo"]
BIGV = [0, 1, 2**31, 2**63, 2**64 - 2, 2**64 - 1]

def hexk(bs):
    return "".join("%02x" % b for b in bs) if bs else "-"

def keys_over(alpha, maxlen):
    ks = []
    for n in range(1, maxlen + 1):
        for w in itertools.product(alpha, repeat=n):
            ks.append(hexk(w))
    return ks

def hdr(pool, mem="conf", plan=None):
    h = "T ? tst %s pool=%s" % (mem, ",".join(pool))
    if plan is not None:
        h += " plan=" + plan
    return h

class V:
    """fresh values, so that a stale value is visible"""
    def __init__(self): self.v = 0
    def __call__(self):
        self.v += 1; return self.v

def ins_rm_chain(keys, pairs):
    """one trace: for every (insertion order, removal order): insert all, remove all"""
    ops = []; v = V()
    for pi, sigma in pairs:
        for k in pi: ops.append("add %s %d" % (k, v()))
        for k in sigma: ops.append("rm %s" % k)
    return ops

def iter_program(keys_in_order, mask, v, tail_irm=False):
    """add the keys, run a full iteration; bit i of mask: iter_remove after the i-th successful next"""
    ops = ["add %s %d" % (k, v()) for k in keys_in_order] + ["iter"]
    for i in range(len(keys_in_order)):
        ops.append("next")
        if mask >> i & 1: ops.append("irm")
    ops.append("next")
    if tail_irm: ops.append("irm")
    ops += ["next", "clear"]
    return ops

def exhaustive(rng, alpha, maxlen, full_n, sample_n, sample_pairs, iter_orders):
    out = []
    pool = keys_over(alpha, maxlen)
    for n in range(1, full_n + 1):
        for S in itertools.combinations(pool, n):
            perms = list(itertools.permutations(S))
            pairs = [(p, s) for p in perms for s in perms]
            out.append([hdr(pool)] + ins_rm_chain(S, pairs) + ["END"])
            # iterator programs: every insertion order (or a sample), every removal mask
            orders = perms if iter_orders is None else rng.sample(perms, min(iter_orders, len(perms)))
            ops = []; v = V()
            for p in orders:
                for mask in range(2 ** n):
                    ops += iter_program(p, mask, v, tail_irm=(mask == 0))
            out.append([hdr(pool)] + ["iter", "irm", "next", "irm"] + ops + ["END"])
    for n in sample_n:
        for S in itertools.combinations(pool, n):
            pairs = []
            for _ in range(sample_pairs):
                p = list(S); s = list(S); rng.shuffle(p); rng.shuffle(s); pairs.append((p, s))
            ops = ins_rm_chain(S, pairs)
            p = list(S); rng.shuffle(p)
            ops += iter_program(p, rng.randrange(2 ** n), V())
            out.append([hdr(pool)] + ops + ["END"])
    return out

def rand_key(rng, pool_bytes, maxlen):
    return hexk([rng.choice(pool_bytes) for _ in range(rng.randint(1, maxlen))])

def random_traces(rng, n, empty_key=False):
    out = []
    for _ in range(n):
        style = rng.random()
        if style < 0.4:      # tiny alphabet incl. a byte >= 128: dense prefix sharing
            bytes_ = rng.choice([[0x61, 0x62], [0x61, 0x62, 0xE9], [0x01, 0x7f, 0x80, 0xff], [0x80, 0x7f]])
            maxlen = rng.choice([2, 3, 4])
        elif style < 0.8:    # all byte values
            bytes_ = list(range(1, 256)); maxlen = rng.choice([1, 2, 3, 6])
        else:                # few keys with long common prefixes
            bytes_ = [0x61, 0xC3]; maxlen = rng.choice([8, 12])
        nk = rng.randint(1, 10)
        pool = list(dict.fromkeys(rand_key(rng, bytes_, maxlen) for _ in range(nk)))
        # close the pool under some prefixes / extensions so that nested keys occur
        for k in list(pool):
            if len(k) > 2 and rng.random() < 0.5: pool.append(k[:rng.randrange(1, len(k) // 2 + 1) * 2])
            if rng.random() < 0.3: pool.append(k + "%02x" % rng.choice(bytes_))
        pool = list(dict.fromkeys(pool))
        ops = []; v = V()
        p_add = rng.choice([0.3, 0.45, 0.6])
        for _ in range(rng.randint(1, 60)):
            x = rng.random()
            k = rng.choice(pool)
            if empty_key and rng.random() < 0.15:
                ops.append(rng.choice(["add0 %d" % v(), "get0", "has0", "rm0"])); continue
            if x < p_add: ops.append("add %s %d" % (k, rng.choice(BIGV) if rng.random() < 0.1 else v()))
            elif x < p_add + 0.15: ops.append("rm %s" % k)
            elif x < p_add + 0.22: ops.append("get %s" % k)
            elif x < p_add + 0.27: ops.append("has %s" % k)
            elif x < p_add + 0.30: ops.append("size")
            elif x < p_add + 0.32: ops.append("clear")
            else:
                # an iterator episode: mostly protocol conforming, sometimes not
                ops.append("iter")
                for _ in range(rng.randint(0, len(pool) + 2)):
                    ops.append("next")
                    if rng.random() < 0.4: ops.append("irm")
                    if rng.random() < 0.05: ops.append("irm")
                    if rng.random() < 0.03: ops.append("rm %s" % rng.choice(pool))
        mem = "libc" if rng.random() < 0.15 else "conf"
        plan = None
        if rng.random() < 0.25:
            plan = "".join(rng.choice("1110") for _ in range(rng.randint(1, 40)))
        out.append([hdr(pool, mem, plan)] + ops + ["END"])
    return out

def boundary():
    out = []
    pool = ["61", "6162", "616263", "62", "e9", "61e9", "80", "7f", "ff", "01"]
    # empty table; missing keys; prefixes / extensions of stored keys (the node exists, the key does not)
    out.append([hdr(pool), "get 61", "has 61", "rm 61", "size", "clear", "iter", "next", "irm", "next", "END"])
    out.append([hdr(pool), "add 616263 1", "get 61", "get 6162", "rm 6162", "rm 61", "has 6162", "get 61626364", "rm 61626364",
                "add 6162 2", "rm 616263", "get 6162", "rm 6162", "size", "END"])
    out.append([hdr(pool), "add 61 0", "get 61", "add 61 %d" % (2**64 - 1), "get 61", "add 61 %d" % 2**63, "rm 61", "rm 61", "END"])
    # signed char order: 0x80..0xff sort before 0x01..0x7f
    out.append([hdr(pool), "add 61 1", "add e9 2", "add 80 3", "add 7f 4", "add ff 5", "add 01 6", "add 61e9 7",
                "get e9", "get 80", "get ff", "rm 61", "rm e9", "get 61e9", "rm 80", "rm ff", "rm 7f", "rm 01", "rm 61e9", "END"])
    # a long key: one node per byte
    long = "ab" * 300
    out.append([hdr([long, long[:-2], "ab"]), "add %s 1" % long, "get %s" % long[:-2], "add %s 2" % long[:-2], "rm %s" % long, "get %s" % long[:-2],
                "add ab 3", "rm %s" % long[:-2], "iter", "next", "next", "END"])
    # replace keeps size; a single one-character key (the one-node table)
    out.append([hdr(pool), "add 62 1", "iter", "next", "next", "add 62 2", "size", "iter", "next", "irm", "next", "size", "END"])
    # both allocator families, table destroyed while full
    for mem in ("conf", "libc"):
        out.append([hdr(pool, mem), "add 61 1", "add 6162 2", "add 62 3", "add e9 4", "END"])
    return out

def fault_plans():
    out = []
    pool = ["61", "6162", "616263", "6163", "62", "626364"]
    for mem in ("conf", "libc"):
        out.append([hdr(pool, mem, "0"), "add 61 1", "END"])               # new_conf refused
        # add of a 3-character key into the empty table: node 1, 2, 3, entry
        for j in range(0, 5):
            out.append([hdr(pool, mem, "1" + "1" * j + "0"), "add 616263 1", "size", "add 616263 2", "get 616263", "END"])
        # below an existing prefix: "ab" present, add "abc" (1 node + entry), add "ac" (1 node + entry), add "a" (entry only)
        for j in range(0, 3):
            out.append([hdr(pool, mem, "1111" + "1" * j + "0"), "add 6162 1", "add 616263 2", "add 616263 3", "END"])
            out.append([hdr(pool, mem, "1111" + "1" * j + "0"), "add 6162 1", "add 6163 2", "add 6163 3", "END"])
        for j in range(0, 2):
            out.append([hdr(pool, mem, "1111" + "1" * j + "0"), "add 6162 1", "add 61 2", "add 61 3", "rm 61", "add 61 4", "END"])
        # refusal after removals (freed blocks are not handed out again by the plan)
        out.append([hdr(pool, mem, "1111110"), "add 6162 1", "add 62 2", "rm 6162", "add 626364 3", "add 626364 4", "END"])
        # the empty key's own allocation sites (a root node with c = 0, then its entry)
        for j in range(0, 3):
            out.append([hdr(pool, mem, "1" + "1" * j + "0"), "add0 1", "add0 2", "get0", "END"])
    return out

def empty_key(rng, alpha):
    """D30: the empty key on every small table (known finding; own op names add0/get0/has0/rm0)"""
    out = []
    pool = keys_over(alpha, 2)
    for n in range(0, 3):
        for S in itertools.combinations(pool, n):
            for p in itertools.permutations(S):
                adds = ["add %s %d" % (k, i + 1) for i, k in enumerate(p)]
                for probe in (["add0 9"], ["get0"], ["has0"], ["rm0"], ["add0 9", "get0", "rm0", "get0"]):
                    out.append([hdr(pool)] + adds + probe + ["rm %s" % k for k in p] + ["END"])
                out.append([hdr(pool)] + ["add0 9"] + adds + ["get0", "rm0", "add0 8", "iter", "next", "next", "next"] + ["END"])
    return out

def generate(rng, tier, mode="default"):
    out = []
    out += boundary()
    out += fault_plans()
    if tier == "quick":
        out += exhaustive(rng, [0x61, 0x62], 3, 3, [4], 2, 2)
        out += exhaustive(rng, [0x61, 0xE9], 2, 3, [], 0, None)
        out += empty_key(rng, [0x61, 0x62])
        out += random_traces(rng, 400)
        out += random_traces(rng, 60, empty_key=True)
    else:
        out += exhaustive(rng, [0x61, 0x62], 3, 3, [4, 5], 8, None)
        out += exhaustive(rng, [0x61, 0x62, 0xE9], 3, 3, [4], 1, 1)
        out += empty_key(rng, [0x61, 0x62, 0xE9])
        out += random_traces(rng, 6000)
        out += random_traces(rng, 500, empty_key=True)
    return out
