"""deque engine: CC_Deque (src/cc_deque.c) and the adapter CC_Queue (src/cc_queue.c).

Trace header:  T ? deque kind=deque|queue cap=<n|default> mem=conf|libc [plan=0110] [first=F size=S junk=0|1]
(first/size: white-box construction of that physical layout, see harness/deque.c)."""
import itertools
DIR = "Deque"
MODELS = ["Deque/DequeModel.vo"]
BIG = [2**31, 2**63, 2**64 - 2, 2**64 - 1]

def hdr(kind="deque", cap=8, mem="conf", plan=None, first=None, size=None, junk=1):
    h = "T ? deque kind=%s cap=%s mem=%s" % (kind, cap, mem)
    if plan is not None: h += " plan=%s" % plan
    if first is not None: h += " first=%d size=%d junk=%d" % (first, size, junk)
    return h

FOLLOW = ["add_last 71", "add_first 72", "remove_last", "remove_first"]

def layout_ops(cap, size):
    """every operation x every index in [0, size+1] on one layout"""
    idx = list(range(0, size + 2))
    ops = []
    for i in idx:
        ops += [["add_at 7 %d" % i], ["remove_at %d" % i], ["replace_at 7 %d" % i], ["get_at %d" % i]]
    ops += [["add_first 7"], ["add_last 7"], ["remove_first"], ["remove_last"], ["remove_all"], ["get_first"], ["get_last"],
            ["trim"], ["reverse"], ["foreach"], ["remove_all_cb"],
            ["copy_shallow", "swap"], ["copy_deep", "swap"], ["filter 2 1", "swap"], ["filter 1 0"], ["filter 1 1", "swap"],
            ["filter_mut 2 1"], ["filter_mut 3 1"], ["filter_mut 1 0"], ["filter_mut 1 1"], ["filter_mut 3 2"],
            ["contains 100"], ["contains 7"], ["contains_value 110"], ["index_of 7"],
            ["trim", "add_last 8", "add_first 9"], ["trim", "remove_first", "add_last 8", "get_last", "add_last 9", "get_at 0"],
            ["trim", "remove_last", "add_first 8", "get_first", "add_first 9"], ["copy_shallow", "swap", "remove_first", "add_last 8", "add_last 9"]]
    for i in range(size):
        ops += [["remove %d" % (100 + i)], ["index_of %d" % (100 + i)]]
    return ops

def exhaustive_layouts(caps, junks, out):
    for cap in caps:
        for first in range(cap):
            for size in range(cap + 1):
                for k, ops in enumerate(layout_ops(cap, size)):
                    for junk in junks:
                        if junk == 0 and not ops[0].startswith(("add_at", "remove_at", "trim", "copy", "filter", "reverse")): continue
                        out.append([hdr(cap=cap, first=first, size=size, junk=junk)] + ops + FOLLOW + ["END"])

def iterator_programs(caps, L, out):
    """all iterator programs of length L over every layout of small deques"""
    alpha = ["iter_next", "iter_remove", "iter_add 7", "iter_replace 8", "iter_index"]
    for cap in caps:
        for first in range(cap):
            for size in range(cap + 1):
                for w in itertools.product(alpha, repeat=L):
                    out.append([hdr(cap=cap, first=first, size=size), "iter_init"] + list(w) + ["END"])

def zip_programs(rng, n, out):
    alpha = ["zip_next", "zip_next", "zip_remove", "zip_add 7 8", "zip_replace 5 6", "zip_index"]
    for _ in range(n):
        cap = rng.choice([1, 2, 4, 8]); first = rng.randrange(cap); size = rng.randint(0, cap)
        mk = rng.choice(["copy_shallow", "copy_deep", "filter 2 1", "filter 1 1", "filter 3 2"])
        pre = rng.choice([[], ["swap"], ["swap", "add_first 50"], ["add_last 51", "add_last 52"], ["swap", "remove_first"], ["remove_last"]])
        ops = [mk] + pre + ["zip_init"] + [rng.choice(alpha) for _ in range(rng.randint(1, 10))]
        out.append([hdr(cap=cap, first=first, size=size)] + ops + ["END"])

def rnd_val(rng):
    return rng.choice(BIG + [0]) if rng.random() < 0.08 else rng.randint(1, 12)

def rnd_index(rng, approx):
    r = rng.random()
    approx = max(0, approx)
    if r < 0.75: return rng.randint(0, approx)
    if r < 0.9: return approx + rng.randint(0, 2)
    return rng.choice(BIG)

def random_history(rng, length, malformed=False):
    ops = []; approx = 0
    p_add = rng.choice([0.35, 0.5, 0.65])
    for _ in range(length):
        r = rng.random()
        if r < p_add:
            k = rng.choice(["add_first", "add_last", "add", "add_at", "add_at"])
            if k == "add_at": ops.append("add_at %d %d" % (rnd_val(rng), rnd_index(rng, approx - 1)))
            else: ops.append("%s %d" % (k, rnd_val(rng)))
            approx += 1
        elif r < p_add + 0.25:
            k = rng.choice(["remove_first", "remove_last", "remove_at", "remove_at", "remove"])
            if k == "remove_at": ops.append("remove_at %d" % rnd_index(rng, approx - 1))
            elif k == "remove": ops.append("remove %d" % rnd_val(rng))
            else: ops.append(k)
            approx = max(0, approx - 1)
        else:
            k = rng.choice(["get_at", "replace_at", "get_first", "get_last", "trim", "reverse", "contains", "contains_value", "index_of",
                            "filter_mut", "foreach", "copy_shallow", "copy_deep", "filter", "swap", "drop", "iter_init", "iter_next", "iter_next",
                            "iter_remove", "iter_add", "iter_replace", "iter_index", "zip_init", "zip_next", "zip_add", "zip_remove",
                            "zip_replace", "remove_all" if rng.random() < 0.2 else "get_first", "remove_all_cb" if rng.random() < 0.1 else "get_last"])
            if k == "get_at": ops.append("get_at %d" % rnd_index(rng, approx - 1))
            elif k == "replace_at": ops.append("replace_at %d %d" % (rnd_val(rng), rnd_index(rng, approx - 1)))
            elif k in ("contains", "contains_value", "index_of", "iter_add", "iter_replace"): ops.append("%s %d" % (k, rnd_val(rng)))
            elif k in ("filter_mut", "filter"): m = rng.randint(1, 4); ops.append("%s %d %d" % (k, m, rng.randint(0, m)))
            elif k in ("zip_add", "zip_replace"): ops.append("%s %d %d" % (k, rnd_val(rng), rnd_val(rng)))
            else: ops.append(k)
            if k in ("remove_all", "remove_all_cb"): approx = 0
    return ops

def queue_history(rng, length):
    ops = []
    p = rng.choice([0.4, 0.55, 0.7])
    for _ in range(length):
        r = rng.random()
        if r < p: ops.append("enqueue %d" % rnd_val(rng))
        elif r < p + 0.25: ops.append("poll")
        else:
            k = rng.choice(["peek", "foreach", "qiter_init", "qiter_next", "qiter_next", "qiter_replace 9", "new2 %d" % rng.randint(0, 5),
                            "enqueue2 %d" % rnd_val(rng), "enqueue2 %d" % rnd_val(rng), "poll2", "qzip_init", "qzip_next", "qzip_replace 5 6"])
            ops.append(k)
    return ops

def with_plans(traces, rng, n_each, out):
    """re-run a trace with single (and sometimes double) refusals of its allocation requests"""
    for t in traces:
        for k in range(n_each):
            plan = ["1"] * (k + 1); plan[k] = "0"
            if rng.random() < 0.2 and k > 0: plan[rng.randrange(k)] = "0"
            h = t[0] + " plan=" + "".join(plan)
            out.append([h] + t[1:])

def generate(rng, tier, mode="default"):
    quick = tier == "quick"
    out = []
    # (a) exhaustive: every physical layout x every operation x every index, stale and untouched free slots
    exhaustive_layouts([1, 2, 4, 8] if quick else [1, 2, 4, 8, 16], [1, 0], out)
    iterator_programs([1, 2, 4], 3 if quick else 4, out)
    iterator_programs([8], 2 if quick else 3, out)
    zip_programs(rng, 400 if quick else 4000, out)
    # every configured capacity 0..9 (power of two or not), both allocator families, constructor refusals
    for cap in list(range(0, 10)) + ["default"]:
        for mem in ("conf", "libc"):
            fill = ["add_last %d" % (10 + i) for i in range(6)] + ["add_first %d" % (20 + i) for i in range(5)]
            out.append([hdr(cap=cap, mem=mem)] + fill + ["add_at 30 3", "remove_at 2", "trim", "copy_shallow", "swap", "reverse", "END"])
            out.append([hdr("queue", cap=cap, mem=mem)] + ["enqueue %d" % i for i in range(1, 12)] + ["poll"] * 12 + ["END"])
            for plan in ("0", "10", "110", "1110", "1101", "11011"):
                out.append([hdr(cap=cap, mem=mem, plan=plan)] + fill[:4] + ["copy_deep", "trim", "filter 2 1", "END"])
                out.append([hdr("queue", cap=cap, mem=mem, plan=plan), "enqueue 1", "enqueue 2", "new2 3", "enqueue2 5", "enqueue 3", "poll", "END"])
    # (b0) upper_pow_two on both sides of every power of two up to 2^20 (2^22 thorough): the constructor's rounded
    #      capacity is a public observation, so the whole or-shift cascade is compared, not just its low steps
    for k in range(1, 21 if quick else 23):
        for cap in (2 ** k - 1, 2 ** k, 2 ** k + 1):
            out.append([hdr(cap=cap), "add_last 5", "add_first 6", "remove_last", "END"])
            out.append([hdr("queue", cap=cap), "enqueue 5", "poll", "END"])
    # (no trace holds more than a few thousand elements: the list-based model is quadratic, and upper_pow_two above
    #  2^16 is covered by the constructor traces above and by the whole-function translation tie, Deque/DequeTie.v)
    # (c0) zip iterator add under every single refusal: one deque exactly full, the other with room (both orders)
    for swap in (0, 1):
        for k in range(0, 9):
            plan = "1" * k + "0"
            pre = ["add_last 1", "add_last 2", "copy_shallow", "add_last 3", "add_last 4"] + (["swap"] if swap else [])
            out.append([hdr(cap=4, plan=plan)] + pre + ["zip_init", "zip_next", "zip_add 8 9", "zip_next", "zip_add 6 7", "END"])
    # (c0') the same with BOTH deques exactly full and the cursor in the back half (the branches of add_at that are
    #       sound, so that the ideal has an opinion): a refusal of the second growth must leave both contents unchanged
    for swap in (0, 1):
        for nx in (3, 4):
            for k in range(0, 7):
                plan = "1" * k + "0"
                pre = ["add_last 1", "add_last 2", "add_last 3", "add_last 4", "copy_shallow"] + (["swap"] if swap else [])
                out.append([hdr(cap=4, plan=plan)] + pre + ["zip_init"] + ["zip_next"] * nx + ["zip_add 8 9", "zip_next", "zip_add 6 7", "swap", "get_last", "swap", "END"])
    # (c) boundary / malformed arguments on empty, single and full containers
    for cap, first, size in [(1, 0, 0), (1, 0, 1), (4, 3, 0), (4, 2, 1), (4, 1, 4), (8, 6, 8), (8, 7, 5)]:
        for i in [0, 1, size - 1 if size else 2**64 - 1, size, size + 1] + BIG:
            i %= 2**64
            for op in ("add_at 7 %d", "remove_at %d", "replace_at 7 %d", "get_at %d"):
                out.append([hdr(cap=cap, first=first, size=size), op % i] + FOLLOW + ["END"])
        for op in ("add_first 0", "add_last 0", "remove 0", "contains 0", "index_of 0", "iter_init", "iter_remove", "iter_replace 0", "iter_index"):
            out.append([hdr(cap=cap, first=first, size=size), op, "iter_remove", "iter_replace 1", "iter_index", "iter_add 2", "END"])
    # (b) seeded random histories from configured capacities, (d) the same under fault plans
    nrand = 500 if quick else 8000
    rnd = []
    for _ in range(nrand):
        cap = rng.choice([0, 1, 2, 3, 4, 5, 6, 7, 8, 9, 16, "default"])
        t = [hdr(cap=cap, mem=rng.choice(["conf", "conf", "libc"]))] + random_history(rng, rng.randint(1, 60)) + ["END"]
        rnd.append(t)
    out += rnd
    for _ in range(10 if quick else 60):
        out.append([hdr(cap=rng.choice([1, 2, 3, 8]))] + random_history(rng, 400) + ["END"])
    with_plans(rnd[: (120 if quick else 1500)], rng, 5, out)
    # random operations from random forged layouts
    for _ in range(300 if quick else 5000):
        cap = rng.choice([2, 4, 8, 16]); first = rng.randrange(cap); size = rng.randint(0, cap)
        out.append([hdr(cap=cap, first=first, size=size, junk=rng.choice([0, 1, 1]))] + random_history(rng, rng.randint(1, 12)) + ["END"])
    # queue zip iterator over two queues of DIFFERENT buffer capacities (one of them grown), replace at every position
    for cap1, n1, cap2, n2 in ((8, 3, 2, 9), (2, 9, 8, 3), (4, 4, 4, 4), (1, 3, 8, 2), (8, 8, 8, 9), (2, 5, 16, 5)):
        for nx in range(1, min(n1, n2) + 1):
            out.append([hdr("queue", cap=cap1)] + ["enqueue %d" % (10 + i) for i in range(n1)] + ["new2 %d" % cap2] + ["enqueue2 %d" % (50 + i) for i in range(n2)]
                       + ["qzip_init"] + ["qzip_next"] * nx + ["qzip_replace 5 6", "qzip_next", "qzip_replace 7 8", "peek", "poll", "poll2", "poll", "poll2", "foreach", "END"])
    # queue: long FIFO interleavings for every configured capacity 1..9
    for cap in range(1, 10):
        out.append([hdr("queue", cap=cap)] + queue_history(rng, 300 if quick else 3000) + ["END"])
    qs = []
    for _ in range(120 if quick else 1500):
        qs.append([hdr("queue", cap=rng.choice([0, 1, 2, 3, 5, 8, "default"]), mem=rng.choice(["conf", "libc"]))]
                  + queue_history(rng, rng.randint(1, 50)) + ["END"])
    out += qs
    with_plans(qs[: (40 if quick else 400)], rng, 5, out)
    return out
