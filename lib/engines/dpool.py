"""dpool engine: CC_DynamicPool (src/memory/cc_dynamic_pool.c)."""
import itertools
DIR = "DPool"
MODELS = ["DPool/DPoolModel.vo"]

def header(size, fixed, packed, ef, boundary, mem, plan=""):
    return "T ? dpool size=%d fixed=%d packed=%d ef=%s boundary=%d mem=%s%s" % (size, fixed, packed, ef, boundary, mem, (" plan=" + plan) if plan else "")

def generate(rng, tier, mode="default"):
    out = []
    EF = ["1/2", "1/1", "3/2", "2/1"]
    # exhaustive short sequences on small pools in every mode
    L = 4 if tier == "quick" else 5
    alpha = ["malloc 0", "malloc 3", "malloc 8", "malloc 16", "malloc 17", "calloc 2 4", "reset", "fill 255", "free 0 0", "free 0 8", "free 1 0", "free 1 3"]
    for (size, fixed, packed, ef, b) in [(16, 1, 1, "1/1", 1), (16, 0, 1, "1/1", 1), (16, 0, 1, "3/2", 1), (16, 0, 0, "2/1", 4), (8, 0, 0, "1/1", 8), (16, 0, 1, "1/2", 1), (16, 1, 0, "1/1", 16)]:
        words = list(itertools.product(alpha, repeat=L))
        rng.shuffle(words); words = words[:700] if tier == "quick" else words[:20000]
        for w in words:
            out.append([header(size, fixed, packed, ef, b, "conf")] + list(w) + ["END"])
    # constructor and expansion under refusal patterns
    for plan in ["0", "10", "110", "1110", "11110"]:
        out.append([header(16, 0, 1, "1/1", 1, "conf", plan), "malloc 16", "malloc 8", "malloc 16", "reset", "malloc 4", "END"])
        out.append(["T ? dpool size=16 default plan=%s" % plan, "malloc 8", "malloc 8", "malloc 1", "END"])
    # random histories
    n = 800 if tier == "quick" else 10000
    for _ in range(n):
        size = rng.choice([1, 8, 16, 24, 40, 64, 100])
        fixed = rng.random() < 0.3; packed = rng.random() < 0.5
        b = rng.choice([1, 2, 4, 8, 16]) if not packed else rng.choice([1, 4])
        ops = []
        for _ in range(rng.randint(1, 40)):
            r = rng.random()
            if r < 0.55:
                ops.append("malloc %d" % (rng.choice([0, 1, size, size + 1, size - 1, 2**64 - 1, 2**63]) if rng.random() < 0.2 else rng.randint(0, max(1, size // 2))))
            elif r < 0.68:
                c, k = rng.choice([(1, 4), (2, 3), (0, 5), (3, 0), (2**63, 2), (2**32, 2**32), (4, 4), (1, size)])
                ops.append("calloc %d %d" % (c, k))
            elif r < 0.85:
                ops.append("free %d %d" % (rng.randint(0, 3), rng.randint(0, size)))
            elif r < 0.93:
                ops.append("fill %d" % rng.randint(1, 255))
            else:
                ops.append("reset")
        out.append([header(size, int(fixed), int(packed), rng.choice(EF), b, rng.choice(["conf", "libc"]))] + ops + ["END"])
    return out
