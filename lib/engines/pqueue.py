"""pqueue engine: CC_PQueue (src/cc_pqueue.c).
Header:  T ? pqueue <capacity|default> <num> <den> <cmp: div16|full|rev16|tie> <mem: conf|libc> [plan=<bits>]
Ops:     push <v> | pop | popn | top | destroy_cb | END"""
import itertools
DIR = "PQueue"
MODELS = ["PQueue/PQueueModel.vo"]
BIG = [0, 1, 15, 16, 2**31, 2**63, 2**64 - 2, 2**64 - 1]
FACTORS = [(5, 4), (3, 2), (2, 1), (4, 1), (1, 1), (1, 2)]      # the last two are <= 1 -> default factor 2

def eff(num, den):
    return (2, 1) if num <= den else (num, den)
def stuck(cap, num, den):
    """D11: (size_t)(cap*ef) <= cap, the queue can never grow."""
    n, d = eff(num, den)
    return cap * n // d <= cap
def hdr(cap, num=2, den=1, cmp="div16", mem="conf", plan=None):
    h = "T ? pqueue %s %s %s %s %s" % (cap, num, den, cmp, mem)
    return h + (" plan=" + plan if plan is not None else "")
def growing_configs(caps=range(1, 10)):
    return [(c, n, d) for c in caps for (n, d) in FACTORS if not stuck(c, n, d)]

def value_stream(kind, n, base=0):
    """fixed streams of n values; priorities (value // 16) with duplicates, identities distinct."""
    if kind == "asc":   return [16 * (base + k // 2) + (k % 16) for k in range(n)]
    if kind == "desc":  return [16 * (base + (n - k) // 2) + (k % 16) for k in range(n)]
    if kind == "zig":   return [16 * (base + (k * 7) % 5) + (k % 16) for k in range(n)]
    if kind == "same":  return [16 * base + (k % 16) for k in range(n)]
    raise ValueError(kind)

def generate(rng, tier, mode="default"):
    out = []
    quick = tier == "quick"
    cfgs = growing_configs()
    # (a) every arrangement of every multiset of <= L priorities over a small alphabet (duplicates), pushed then drained
    L = 6 if quick else 7
    alpha = [1, 2, 3] if quick else [1, 2, 3, 4]
    k = 0
    for n in range(1, L + 1):
        for seq in itertools.product(alpha, repeat=n):
            cap, num, den = cfgs[k % len(cfgs)]; k += 1
            cmpm = "div16" if k % 5 else "rev16"
            out.append([hdr(cap, num, den, cmpm)] + ["push %d" % (16 * p + j) for j, p in enumerate(seq)] + ["END"])
    # every permutation of <= L distinct values, full-value comparator
    for n in ((5, 6) if quick else (5, 6, 7)):
        for perm in itertools.permutations(range(1, n + 1)):
            cap, num, den = cfgs[k % len(cfgs)]; k += 1
            out.append([hdr(cap, num, den, "full")] + ["push %d" % (3 * v) for v in perm] + ["top", "pop", "top", "END"])
    # (b) every push/pop word of length <= W over fixed value streams (shorter words are prefixes: observed per line)
    Wlen = 8 if quick else 11
    for kind in ("asc", "desc", "zig"):
        for w in itertools.product("uo", repeat=Wlen):
            cap, num, den = cfgs[k % len(cfgs)]; k += 1
            vals = value_stream(kind, Wlen, base=1); vi = 0; ops = []
            for ch in w:
                if ch == "u":
                    ops.append("push %d" % vals[vi]); vi += 1
                else:
                    ops.append("pop")
            out.append([hdr(cap, num, den, "div16" if k % 3 else "full")] + ops + ["END"])
    # (c) capacities 1..9 x every factor: a seeded mixed history crossing several growth steps
    for cap in range(1, 10):
        for (num, den) in FACTORS:
            if stuck(cap, num, den): continue
            ops = []
            for _ in range(40 if quick else 120):
                r = rng.random()
                ops.append("push %d" % rng.randint(0, 95) if r < 0.65 else ("pop" if r < 0.9 else ("top" if r < 0.95 else "popn")))
            out.append([hdr(cap, num, den, rng.choice(["div16", "full", "rev16"]), rng.choice(["conf", "libc"]))] + ops + ["END"])
    # (d) sorted / reversed / all-equal streams of 200 elements (2000 thorough)
    n = 200 if quick else 500
    for kind in ("asc", "desc", "same", "zig"):
        for (cap, num, den) in ((1, 2, 1), (8, 5, 4), (3, 3, 2), ("default", "-", "-")):
            for cmpm in ("div16", "full") if quick else ("div16", "full", "rev16", "tie"):
                mem = "libc" if cap == "default" else "conf"
                vals = value_stream(kind, n)
                ops = ["push %d" % v for v in vals]
                if kind == "zig": ops = ops[:n // 2] + ["pop"] * (n // 4) + ops[n // 2:]
                out.append([hdr(cap, num, den, cmpm, mem)] + ops + ["END"])
    # (e) fault plans: the j-th allocation request refused, for every request of the trace (constructor + every growth)
    for (cap, num, den, npush) in ((1, 2, 1, 20), (2, 3, 2, 14), (4, 5, 4, 12), (3, 4, 1, 14), ("default", "-", "-", 20)):
        ops = ["push %d" % v for v in value_stream("zig", npush)]
        ops = ops[:npush // 2] + ["pop", "top"] + ops[npush // 2:] + ["pop"]
        for j in range(0, 10):
            out.append([hdr(cap, num, den, "div16", "conf", "1" * j + "0")] + ops + ["END"])
            out.append([hdr(cap, num, den, "full", "conf", "1" * j + "00")] + ops + ["END"])
            if not quick:
                for j2 in range(j + 1, 10):
                    out.append([hdr(cap, num, den, "div16", "conf", "1" * j + "0" + "1" * (j2 - j - 1) + "0")] + ops + ["END"])
    for plan in ("", "0", "10", "11", "01", "00"):
        for mem in ("conf", "libc"):
            out.append([hdr("default", "-", "-", "div16", mem, plan), "push 5", "push 50", "pop", "END"])
            out.append([hdr(2, 2, 1, "full", mem, plan), "push 5", "push 50", "push 7", "pop", "destroy_cb", "END"])
    # (f) destroy_cb: the callback sees every held element once
    for (cap, num, den) in ((1, 2, 1), (4, 3, 2), (8, 2, 1), (9, 5, 4)):
        for npush in (0, 1, 2, 5, 9, 17):
            vals = value_stream("zig", npush)
            out.append([hdr(cap, num, den, "div16")] + ["push %d" % v for v in vals] + ["destroy_cb", "push 1", "END"])
            out.append([hdr(cap, num, den, "full", "libc")] + ["push %d" % v for v in vals] + ["pop", "pop", "destroy_cb", "END"])
    # (g) D11 (known): a capacity that (size_t)(capacity*factor) does not increase can never grow; dedicated traces only
    for (cap, num, den) in ((1, 3, 2), (1, 5, 4), (2, 5, 4), (3, 5, 4)):
        assert stuck(cap, num, den)
        out.append([hdr(cap, num, den, "div16")] + ["push %d" % (16 * v) for v in (3, 1, 4, 1, 5)] + ["pop", "push 99", "push 98", "END"])
    # (h) boundary / malformed configurations and arguments
    for (cap, num, den) in ((0, 2, 1), (0, 1, 1), (2**63, 2, 1), (2**62, 4, 1), (2**64 - 1, 2, 1), (2**64 - 2, 5, 4),
                            (2**37 + 1, 2, 1),            # 2^40+8 bytes: refused by the allocator limit, header released
                            (2**40, 3, 2),
                            (2**62, 2, 1), (2**61, 2, 1),  # capacity*8 wraps to 0 bytes: accepted, first push writes outside (model: Fault)
                            (2**61 + 1, 2, 1),             # wraps to 8 bytes = 1 slot: second push writes outside
                            (4, 2**61, 1),                 # absurd factor: first growth asks for 2^63 slots = 0 bytes
                            (8, 2**40, 1)):
        for mem in ("conf", "libc"):
            out.append([hdr(cap, num, den, "div16", mem)] + ["top", "pop", "push 16", "push 32", "push 48", "push 0", "push 64", "push 80", "pop", "END"])
    for cmpm in ("div16", "full", "rev16", "tie"):
        out.append([hdr(1, 2, 1, cmpm), "pop", "top", "popn"] + ["push %d" % v for v in BIG] + ["popn", "top", "pop", "pop", "push 0", "push 0", "END"])
        out.append([hdr(3, 3, 2, cmpm)] + ["push %d" % v for v in reversed(BIG)] + ["pop"] * (len(BIG) + 2) + ["push 7", "END"])
    # (i) seeded random long histories
    nrand = 250 if quick else 4000
    for _ in range(nrand):
        if rng.random() < 0.1:
            cap, num, den = "default", "-", "-"
        else:
            cap, num, den = rng.choice(cfgs)
        cmpm = rng.choice(["div16", "div16", "full", "rev16", "tie"])
        mem = rng.choice(["conf", "libc"])
        plan = None
        if rng.random() < 0.3:
            plan = "".join(rng.choice("1110") for _ in range(rng.randint(1, 12)))
        pool = rng.choice([8, 40, 200, 2000])
        p_push = rng.choice([0.4, 0.55, 0.7, 0.9])
        ops = []
        for _ in range(rng.randint(1, 120 if quick else 400)):
            r = rng.random()
            if r < p_push:
                ops.append("push %d" % (rng.choice(BIG) if rng.random() < 0.05 else rng.randint(0, pool)))
            elif r < p_push + (1 - p_push) * 0.8: ops.append("pop")
            elif r < p_push + (1 - p_push) * 0.9: ops.append("top")
            else: ops.append("popn")
        tail = ["destroy_cb", "END"] if rng.random() < 0.15 else ["END"]
        out.append([hdr(cap, num, den, cmpm, mem, plan)] + ops + tail)
    return out
