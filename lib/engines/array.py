"""array engine: CC_Array (src/cc_array.c) and CC_Stack (src/cc_stack.c)."""
import itertools
DIR = "Array"
MODELS = ["Array/ArrayModel.vo"]
BIG = [2**31, 2**63, 2**64 - 2, 2**64 - 1]

def hdr(cap, ef="2/1", mem="conf", plan="", kind="array"):
    return "T ? array cap=%d ef=%s mem=%s%s%s" % (cap, ef, mem, (" plan=" + plan) if plan else "", " kind=stack" if kind == "stack" else "")

def idxs(size):
    return sorted(set([0, 1, max(size - 1, 0), size, size + 1]))

def generate(rng, tier, mode="default"):
    out = []
    quick = tier == "quick"
    # (a) exhaustive short histories over a small alphabet, capacities 1..4
    L = 4 if quick else 5
    vals = [16, 17, 32]
    alpha = ["h0 add 16", "h0 add 17", "h0 add_at 32 0", "h0 add_at 33 1", "h0 add_at 34 2", "h0 remove_at 0", "h0 remove_at 1", "h0 remove 16",
             "h0 remove_last", "h0 replace_at 48 1", "h0 swap_at 0 2", "h0 reverse", "h0 filter_mut", "h0 trim", "h0 remove_all", "h0 get_last"]
    for cap in ([1, 2, 3] if quick else [1, 2, 3, 4]):
        words = list(itertools.product(alpha, repeat=L))
        rng.shuffle(words)
        for w in words[: (2500 if quick else 60000)]:
            out.append([hdr(cap, rng.choice(["2/1", "3/2", "5/4", "1/1"]))] + list(w) + ["h0 index_of 17", "h0 contains 16", "END"])
    # (b) every indexed function at every boundary index on sizes 0..5, full and not full
    for size in range(0, 6):
        for cap in (max(size, 1), size + 2):
            fill = ["h0 add %d" % (16 * (k + 1) + (k % 2)) for k in range(size)]
            for i in idxs(size) + BIG:
                for op in ("add_at 99 %d", "replace_at 99 %d", "remove_at %d", "get_at %d", "swap_at %d 0", "swap_at 0 %d"):
                    out.append([hdr(cap)] + fill + ["h0 " + (op % i), "h0 size", "END"])
            for b in idxs(size) + [BIG[-1]]:
                for e in idxs(size) + [BIG[-1]]:
                    out.append([hdr(cap)] + fill + ["h1 = h0 subarray %d %d" % (b, e), "h1 add 7", "h0 add 8", "h1 destroy", "h0 get_last", "END"])
            out.append([hdr(cap)] + fill + ["h0 remove_last", "h0 get_last", "h0 map", "h0 reduce", "h0 contains_value 17", "h0 sort", "h0 destroy_cb", "END"])
    # (c) derived containers: content, independence, growth of the result, empty source
    for size in range(0, 5):
        fill = ["h0 add %d" % (16 * (k + 1) + (k % 2)) for k in range(size)]
        for op in ("copy_shallow", "copy_deep", "filter", "subarray 0 %d" % max(size - 1, 0)):
            for cap in (1, size + 1):
                grow = ["h1 add %d" % (200 + k) for k in range(cap + 2)]
                out.append([hdr(cap, "3/2")] + fill + ["h1 = h0 " + op] + grow + ["h0 remove_all", "h1 size", "h0 destroy", "h1 get_last", "END"])
    # (d) fault plans: every single refusal position, plus double refusals, over a growth-heavy history
    base = ["h0 add 16", "h0 add 17", "h0 add_at 18 1", "h1 = h0 copy_shallow", "h0 add 19", "h2 = h0 filter", "h0 trim", "h1 add 5", "h1 add 6", "h3 = h1 subarray 0 1", "h0 add 20", "h0 add 21"]
    for k in range(0, 16):
        plan = "1" * k + "0"
        out.append([hdr(1, "2/1", "conf", plan)] + base + ["END"])
        out.append([hdr(2, "3/2", "libc", plan)] + base + ["END"])
        out.append([hdr(1, "2/1", "conf", plan, "stack"), "s0 push 2", "s0 push 3", "s0 push 4", "s1 = s0 filter", "s0 push 6", "s1 push 8", "s0 pop", "END"])
    # (d2) every allocation of every allocating operation refused in turn (constructor = 2 grants; no growth before the
    #      operation): header and buffer of the derived arrays, trim's new buffer, the stack filter's three blocks
    fill3 = ["h0 add 16", "h0 add 17", "h0 add 18"]
    for op in ("h1 = h0 copy_shallow", "h1 = h0 copy_deep", "h1 = h0 filter", "h1 = h0 subarray 0 1", "h0 trim", "h0 add 19", "h0 add_at 19 1"):
        for cap in (3, 4):
            for plan in ("110", "1110", "11110"):
                out.append([hdr(cap, "2/1", "conf", plan)] + fill3 + [op, "h0 size", "h0 get_last", "h0 add 20", "h1 add 21", "h1 size", "END"])
    for plan in ("1110", "11110", "111110", "1111110"):
        out.append([hdr(4, "2/1", "conf", plan, "stack"), "s0 push 2", "s0 push 3", "s0 push 4", "s1 = s0 filter", "s0 push 6", "s1 push 8", "s0 pop", "s1 pop", "END"])
    if not quick:
        for k in range(0, 12):
            for j in range(k + 1, 13):
                plan = "".join("0" if x in (k, j) else "1" for x in range(j + 1))
                out.append([hdr(1, "2/1", "conf", plan)] + base + ["END"])
    # (e) iterator programs (at most one structural change per yield) on sizes 0..4, full and with room
    prog_ops = ["next", "remove", "add 70", "replace 80", "index"]
    for size in range(0, 5):
        fill = ["h0 add %d" % (16 * (k + 1)) for k in range(size)]
        for cap in (max(size, 1), size + 3):
            for w in itertools.product(prog_ops, repeat=(4 if quick else 5)):
                # well-formed: mutators only directly after a successful next
                okp = True; prev = None
                for o in w:
                    if o.split()[0] in ("remove", "add", "replace") and prev != "next": okp = False
                    prev = o.split()[0]
                if not okp: continue
                out.append([hdr(cap), *fill, "i0 = h0 iter"] + ["i0 " + o for o in w] + ["i0 next", "i0 next", "h0 size", "END"])
    for size1 in range(0, 4):
        for size2 in range(0, 4):
            fill = ["h0 add %d" % (16 * (k + 1)) for k in range(size1)] + ["h1 = h0 copy_deep"] + ["h1 add %d" % (900 + k) for k in range(max(0, size2 - size1))] + ["h1 remove_last"] * max(0, size1 - size2)
            for w in itertools.product(["next", "remove", "add 70 71", "replace 80 81", "index"], repeat=3):
                okp = True; prev = None
                for o in w:
                    if o.split()[0] in ("remove", "add", "replace") and prev != "next": okp = False
                    prev = o.split()[0]
                if not okp: continue
                out.append([hdr(max(size1, 1)), *fill, "z0 = h0 h1 zip"] + ["z0 " + o for o in w] + ["z0 next", "END"])
    # a second remove without a new yield is refused (defined behaviour, VALUE_NOT_FOUND) - single and zip iterator
    for size in (1, 2, 3):
        fill = ["h0 add %d" % (16 * (k + 1)) for k in range(size)]
        out.append([hdr(4), *fill, "i0 = h0 iter", "i0 next", "i0 remove", "i0 remove", "i0 next", "h0 size", "END"])
        out.append([hdr(4), *fill, "h1 = h0 copy_shallow", "z0 = h0 h1 zip", "z0 next", "z0 remove", "z0 remove", "z0 next", "z0 remove", "h0 size", "h1 size", "END"])
    # (c2) filter_mut / filter on every keep/drop pattern of length <= 7 (8 thorough): every cluster shape of the
    #      backwards scan (leading, trailing, interior runs of rejected elements, single survivors)
    for n in range(0, 8 if quick else 9):
        for bits in range(2 ** n):
            fill = ["h0 add %d" % (2 * (10 + k) + ((bits >> k) & 1)) for k in range(n)]
            out.append([hdr(max(n, 1))] + fill + ["h1 = h0 filter", "h0 filter_mut", "h0 size", "h0 add 99", "END"])
    # (e2) zip iterator add under every single refusal: one array exactly full, the other with room (both orders),
    #      so that "grow both first, insert into neither on failure" is exercised
    for full_first in (0, 1):
        for k in range(0, 9):
            plan = "1" * k + "0"
            fill = ["h0 add 16", "h0 add 32", "h1 = h0 copy_shallow", "h1 add 48", "h1 add 64"]      # h0 2/4, h1 4/4
            zipl = "z0 = h1 h0 zip" if full_first else "z0 = h0 h1 zip"
            out.append([hdr(4, "2/1", "conf", plan)] + fill + [zipl, "z0 next", "z0 add 70 71", "z0 next", "z0 add 72 73", "h0 size", "h1 size", "END"])
    # (e3) single-iterator add on an exactly full array under every single refusal: a refused growth must leave the
    #      contents AND the cursor where they were (index, a retried add, the next yield all tell)
    for cap in (2, 3, 4):
        fill = ["h0 add %d" % (16 * (k + 1)) for k in range(cap)]
        for nx in range(1, cap + 1):
            for k in range(2, 6):
                plan = "1" * k + "0"
                out.append([hdr(cap, "2/1", "conf", plan)] + fill + ["i0 = h0 iter"] + ["i0 next"] * nx + ["i0 add 70", "i0 index", "i0 add 71", "i0 index", "i0 next", "i0 replace 5", "h0 size", "END"])
    # (f) stack: LIFO interleavings (exhaustive words) and long random ones, iteration, map, filter
    for cap in (1, 2, 3):
        for w in itertools.product("pq", repeat=(7 if quick else 10)):
            v = 0; ops = []
            for ch in w:
                if ch == "p": v += 1; ops.append("s0 push %d" % (v * 2 + (v % 3 == 0)))
                else: ops.append("s0 pop")
            out.append([hdr(cap, "2/1", "conf", "", "stack")] + ops + ["s0 peek", "s0 size", "s0 map", "i0 = s0 iter", "i0 next", "i0 replace 9", "i0 next", "s1 = s0 filter", "s0 filter_mut", "s0 destroy_cb", "END"])
    for n in (1, 2, 3):
        ps = ["s0 push %d" % (10 + k) for k in range(n)]
        out.append([hdr(4, "2/1", "conf", "", "stack")] + ps + ["i0 = s0 iter"] + ["i0 next"] * n + ["i0 replace 77", "s0 peek", "s0 pop", "s0 peek", "s0 size", "END"])
        out.append([hdr(4, "2/1", "conf", "", "stack")] + ps + ["s1 = s0 filter", "z0 = s0 s1 zip"] + ["z0 next"] * n + ["z0 replace 77 78", "s0 peek", "s1 peek", "s0 pop", "s1 pop", "s0 peek", "END"])
    out.append(["T ? array default kind=stack", "s0 pop", "s0 peek", "s0 push 1", "s1 = s0 filter", "s0 push 2", "s1 = s0 filter", "z0 = s0 s1 zip", "z0 next", "z0 replace 5 6", "z0 next", "END"])
    out.append(["T ? array default", "h0 add 1", "h0 remove_last", "h0 remove_last", "h0 get_last", "h0 filter_mut", "h1 = h0 filter", "h0 trim", "h0 add 4", "h0 add 5", "END"])
    # (h) capacities and factors whose buffer size in bytes is at or beyond what size_t can hold (the constructor
    #     must refuse them; growth towards them must fail without touching the array), and the largest legal ones
    for cap in (2**61 - 1, 2**61, 2**61 + 1, 2**62, 2**63, 2**64 - 3, 2**64 - 2, 2**64 - 1, 2**40):
        for ef in ("2/1", "3/2", "7/1"):
            for mem in ("conf", "libc"):
                out.append([hdr(cap, ef, mem), "h0 add 5", "h0 add_at 6 0", "h0 size", "h0 get_last", "h1 = h0 copy_shallow", "h0 trim", "h0 destroy", "END"])
                out.append([hdr(cap, ef, mem, "", "stack"), "s0 push 5", "s0 push 6", "s0 pop", "s0 size", "END"])
    for cap in (1, 2, 4, 7):
        for ef in ("2305843009213693952/1", "1152921504606846976/1", "576460752303423488/1", "4611686018427387904/3", "1000000000000/1"):
            fill = ["h0 add %d" % (16 + k) for k in range(cap + 2)]
            out.append([hdr(cap, ef, "conf")] + fill + ["h0 add_at 9 1", "h0 size", "h0 get_last", "i0 = h0 iter", "i0 next", "i0 add 70", "h0 remove_last", "h0 add 3", "END"])
            out.append([hdr(cap, ef, "conf", "", "stack")] + ["s0 push %d" % k for k in range(cap + 2)] + ["s0 pop", "s0 size", "END"])
    # (g) random long histories crossing several growth steps
    n = 400 if quick else 6000
    ops1 = ["add %d", "add_at %d {i}", "replace_at %d {i}", "swap_at {i} {j}", "remove %d", "remove_at {i}", "remove_last", "get_at {i}", "index_of %d",
            "contains %d", "reverse", "filter_mut", "trim", "get_last", "size", "remove_all", "sort", "map", "reduce", "contains_value %d"]
    wts = [30, 12, 6, 4, 5, 8, 6, 5, 3, 3, 2, 2, 3, 3, 2, 1, 1, 1, 1, 1]
    for _ in range(n):
        cap = rng.choice([1, 1, 2, 3, 4, 8, 9])
        ef = rng.choice(["2/1", "3/2", "5/4", "4/1", "1/2"])
        size = 0; ops = []
        for _ in range(rng.randint(5, 70)):
            t = rng.choices(ops1, wts)[0]
            i = rng.choice(idxs(size)) if rng.random() < 0.85 else rng.choice(BIG)
            j = rng.choice(idxs(size))
            t = t.replace("{i}", str(i)).replace("{j}", str(j))
            if "%d" in t: t = t % (rng.choice([0, 16, 17, 18, 32, 33]) if rng.random() < 0.7 else rng.randint(0, 200))
            ops.append("h0 " + t)
            if t.startswith("add"): size += 1
            elif t.startswith("remove_all"): size = 0
            elif t.startswith("remove") and size > 0: size -= 1
        out.append([hdr(cap, ef, rng.choice(["conf", "libc"]))] + ops + ["END"])
    return out
