"""Engine registry: every module lib/engines/<name>.py defines
   DIR        coq sub-directory (holds <X>Model.v, <X>Proofs.v, Extract.v)
   MODELS     list of .vo targets that Extract.v needs
   generate(rng, tier, mode) -> list of traces (each a list of lines, header first, 'END' last)
"""
import importlib, pkgutil, os
ENGINES = {}
for m in pkgutil.iter_modules([os.path.dirname(__file__)]):
    mod = importlib.import_module("engines." + m.name)
    ENGINES[m.name] = mod

def generate(engine, rng, tier, mode="default"):
    traces = ENGINES[engine].generate(rng, tier, mode)
    res = []
    for i, t in enumerate(traces):
        tid = "%s-%d" % (engine, i)
        hdr = t[0].split()
        hdr[1] = tid
        res.append((tid, [" ".join(hdr)] + t[1:]))
    return res
