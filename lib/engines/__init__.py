"""Engine registry: every module lib/engines/<name>.py defines
   DIR        coq sub-directory (holds <X>Model.v, <X>Proofs.v, Extract.v)
   MODELS     list of .vo targets that Extract.v needs
   generate(rng, tier, mode) -> list of traces (each a list of lines, header first, 'END' last)
"""
import importlib, pkgutil, os
ENGINES = {}
for m in pkgutil.iter_modules([os.path.dirname(__file__)]):
    mod = importlib.import_module("engines." + m.name)
    ENGINES[m.name] = mod

import re
_DERIVED = re.compile(r"\b(copy_shallow|copy_deep|subarray|sublist|filter|get_keys|get_values|copy|to_array)\b")
_ITER = re.compile(r"\b(iter\w*|zip\w*|diter\w*|next|irm|foreach\w*)\b")
_BIGNUM = re.compile(r"\b(\d{10,}|0x[0-9a-fA-F]{8,})\b")
MODE_FILTERS = {
    # textual selectors applied to an engine's full scope when a cross-cutting property asks for one aspect
    "queue":   lambda t: "kind=queue" in t[0],
    "stack":   lambda t: "kind=stack" in t[0],
    "faults":  lambda t: "plan=" in t[0],
    "iter":    lambda t: any(_ITER.search(l) for l in t[1:]),
    "derived": lambda t: any(_DERIVED.search(l) for l in t[1:]),
    "bounds":  lambda t: any(_BIGNUM.search(l) for l in t[1:]) or len(t) <= 5,
    "sort":    lambda t: any("sort" in l for l in t[1:]),
    "growth":  lambda t: sum(1 for l in t[1:] if re.search(r"\b(add|add_last|add_first|push|enqueue|enq)\b", l)) >= 6 or any("trim" in l for l in t[1:]) or re.search(r"cap=\d{3,}", t[0]) is not None,
}

def generate(engine, rng, tier, mode="default"):
    traces = ENGINES[engine].generate(rng, tier, mode)
    if mode in MODE_FILTERS:
        sel = [t for t in traces if MODE_FILTERS[mode](t)]
        if len(sel) >= 20: traces = sel
    res = []
    for i, t in enumerate(traces):
        tid = "%s-%d" % (engine, i)
        hdr = t[0].split()
        hdr[1] = tid
        res.append((tid, [" ".join(hdr)] + t[1:]))
    return res
