"""list engine: CC_List (src/cc_list.c). Two handles a, b per trace."""
import itertools
DIR = "List_"
MODELS = ["List_/ListModel.vo"]
BIG = [0, 1, 2**31, 2**63, 2**64 - 2, 2**64 - 1]
ENG = "list"
BACKWARD = True          # slist.py reuses this module with BACKWARD = False

def hdr(ma="conf", mb="conf", plan=""):
    return "T ? %s %s %s%s" % (ENG, ma, mb, (" plan=" + plan) if plan else "")

def build(h, vals):
    return ["%s add_last %d" % (h, v) for v in vals]

def probe():
    """follow-up operations that expose stale head/tail/link fields"""
    return ["a add_last 91", "a add_first 92", "a remove_last", "a remove_first",
            "b add_last 93", "b add_first 94", "b remove_last", "b remove_first"]

def positions(n):
    ps = {0, n // 2, n, n + 1}
    if n >= 1: ps.add(n - 1)
    if n >= 3: ps.add(1)
    return sorted(ps)

def avals(n, kind=0):
    if kind == 0: return [10 + i for i in range(n)]
    if kind == 1: return [[7, 0, 7, 0, 7][i] for i in range(n)]        # duplicates and NULL
    return [[12, 13, 14, 15, 16][i] for i in range(n)]                  # mixed parity for filters

def iter_programs(n, maxlen, desc, zip_=False, n2=None):
    """all iterator programs of length <= maxlen within the contract (mutators only after a yield that is
    still there; at most one structural change per yield), by simulating the ideal cursor."""
    out = []
    lim = n if n2 is None else min(n, n2)
    def go(prog, ln, pos, has_last, changed, k):
        if prog: out.append(prog)
        if k == maxlen: return
        # next
        if desc:
            if pos > 0: go(prog + ["n", "i"], ln, pos - 1, True, False, k + 1)
            else: go(prog + ["n"], ln, pos, has_last, changed, k + 1)
        else:
            if pos < (ln if n2 is None else lim + (ln - n)):
                go(prog + ["n", "i"], ln, pos + 1, True, False, k + 1)
            else: go(prog + ["n"], ln, pos, has_last, changed, k + 1)
        if has_last:
            v = 50 + k
            go(prog + (["p%d:%d" % (v, v + 100)] if zip_ else ["p%d" % v]) + ["i"], ln, pos, True, changed, k + 1)
            if not changed:
                go(prog + ["r"], ln - 1, pos if desc else pos - 1, False, True, k + 1)
            # several adds after one yield are chained behind (descending: in front of) the yielded element
            go(prog + (["a%d:%d" % (v, v + 100)] if zip_ else ["a%d" % v]), ln + 1, pos if desc else pos + 1, True, True, k + 1)
    go([], n, n if desc else 0, False, False, 0)
    return out

def generate(rng, tier, mode="default"):
    out = []
    quick = tier == "quick"
    maxn = 4
    # ---------------------------------------------------------------- exhaustive: indexed single-list operations
    for n in range(maxn + 1):
        for kind in (0, 1):
            va = avals(n, kind)
            for p in positions(n) + [2**63, 2**64 - 1]:
                for op in ("add_at 55 %d", "remove_at %d", "replace_at 55 %d", "get_at %d"):
                    out.append([hdr()] + build("a", va) + ["a " + op % p] + probe()[:4] + ["END"])
            for op in ("add_first 55", "add_last 55", "add 55", "remove_first", "remove_last", "remove_all", "remove_all_cb",
                       "get_first", "get_last", "size", "to_array", "foreach", "reverse", "filter_mut", "reduce",
                       "remove 7", "remove 0", "remove 11", "remove 55", "index_of 7", "index_of 0", "index_of 12", "index_of 55",
                       "index_of 19 key", "contains 7", "contains 0", "contains 55", "contains_value 7", "contains_value 17 key",
                       "copy_shallow", "copy_deep", "filter", "sort", "sort_in_place val", "sort_in_place key"):
                for k2 in ((kind, 2) if op in ("filter_mut", "filter") else (kind,)):
                    out.append([hdr()] + build("a", avals(n, k2)) + ["a " + op] + probe()[:4] + ["END"])
            for b in range(n + 2):
                for e in range(n + 2):
                    out.append([hdr()] + build("a", va) + ["a sublist %d %d" % (b, e)] + ["END"])
    # ---------------------------------------------------------------- exhaustive: bulk operations, both operand sizes
    for n in range(maxn + 1):
        for m in range(maxn + 1):
            va, vb = avals(n), [20 + i for i in range(m)]
            for op in ("add_all", "splice"):
                out.append([hdr()] + build("a", va) + build("b", vb) + ["a " + op] + probe() + ["END"])
            for p in positions(n) + ([2**64 - 1] if m in (0, 2) else []):
                for op in ("add_all_at", "splice_at"):
                    out.append([hdr()] + build("a", va) + build("b", vb) + ["a %s %d" % (op, p)] + probe() + ["END"])
            # destination b, source a (handles are symmetric)
            if n <= 2 and m <= 2:
                out.append([hdr()] + build("a", va) + build("b", vb) + ["b add_all_at %d" % (m // 2), "b splice_at 0", "a add_all"] + probe() + ["END"])
    # ---------------------------------------------------------------- all short histories over a small alphabet
    alpha = ["a add_first 1", "a add_last 2", "a add_at 3 1", "a remove_first", "a remove_last", "a remove_at 1", "a remove 2",
             "a reverse", "a filter_mut", "a add_all", "a splice_at 1", "b add_last 4", "b splice", "b add_all_at 1", "a replace_at 5 0"]
    L = 3 if quick else 4
    for w in itertools.product(alpha, repeat=L):
        out.append([hdr()] + list(w) + ["END"])
    # ---------------------------------------------------------------- iterator programs
    ml = 4 if quick else 5
    for n in range(maxn + 1):
        for desc in ((False, True) if BACKWARD else (False,)):
            for prog in iter_programs(n, ml, desc):
                out.append([hdr()] + build("a", avals(n)) + ["a %s %s" % ("diter" if desc else "iter", " ".join(prog))] + probe()[:4] + ["END"])
    for n in range(4):
        for m in range(4):
            for prog in iter_programs(n, 4 if quick else 5, False, True, m):
                out.append([hdr()] + build("a", avals(n)) + build("b", [20 + i for i in range(m)]) + ["a zip " + " ".join(prog)] + probe() + ["END"])
    # outside the contract (model predicts the crash / the error)
    for prog in ("r", "p5", "n r r", "n r p5", "n n r n r", "i", "n r i"):
        out.append([hdr()] + build("a", avals(3)) + ["a iter " + prog, "a diter " + prog] + probe()[:4] + ["END"])
    out.append([hdr()] + build("a", avals(3)) + ["a iter a5"] + ["END"])
    out.append([hdr()] + build("a", avals(3)) + ["a iter n r a5"] + ["END"])
    out.append([hdr()] + build("a", avals(3)) + ["a iter n a5 a6 r n n", "a diter n a5 a6 r n n"] + probe()[:4] + ["END"])
    # several adds after one yield keep every node (order: last added first), also at the end of the list (tail)
    for n in range(1, 4):
        for ma, mb in (("conf", "conf"), ("libc", "conf")):
            out.append([hdr(ma, mb)] + build("a", avals(n)) + ["a iter n a5 a6 n n", "a add_last 91", "a remove_last", "a remove_last"] + probe() + ["END"])
            out.append([hdr(ma, mb)] + build("a", avals(n)) + ["a iter " + "n " * n + "a5 a6 a7 p8 n", "a add_last 91", "a remove_last", "a remove_last", "a reverse"] + probe() + ["END"])
            out.append([hdr(ma, mb)] + build("a", avals(n)) + build("b", [20, 21]) + ["a zip n a5:6 a7:8 n", "a add_last 91", "b add_last 92", "b remove_last", "b remove_last"] + probe() + ["END"])
            out.append([hdr(ma, mb)] + build("a", avals(n)) + build("b", [20]) + ["a zip n a5:6 a7:8 a1:2 n", "a add_last 91", "b add_last 92", "b remove_last", "b remove_last", "a remove_last"] + probe() + ["END"])
            if BACKWARD:
                out.append([hdr(ma, mb)] + build("a", avals(n)) + ["a diter n a5 a6 n n", "a add_first 91", "a remove_first", "a remove_first"] + probe() + ["END"])
    # ---------------------------------------------------------------- sorting: all sequences over 3 keys, tags make elements distinct
    sl = 5 if quick else 7
    for ln in range(sl + 1):
        for keys in itertools.product(range(3), repeat=ln):
            vals = [k * 16 + 16 + t for t, k in enumerate(keys)]
            out.append([hdr()] + build("a", vals) + ["a sort_in_place key"] + probe()[:4] + ["END"])
            if ln <= 4:
                out.append([hdr()] + build("a", vals) + ["a sort", "a sort_in_place val"] + probe()[:4] + ["END"])
            if 2 <= ln <= 5:
                # the qsort-based sort with a comparator under which distinct elements tie (every element must survive)
                out.append([hdr()] + build("a", vals) + ["a sort key"] + probe()[:4] + ["END"])
    # ---------------------------------------------------------------- fault plans
    for plan in ("0", "10", "01", "00"):
        out.append([hdr(plan=plan), "a add_last 1", "b add_last 2", "END"])
    for n in range(4):
        for m in range(1, 4):
            for k in range(m + 1):
                plan = "1" * k + "0"
                for op in ("a add_all", "a add_all_at 0", "a add_all_at %d" % n, "a add_all_at %d" % (n // 2)):
                    out.append([hdr()] + build("a", avals(n)) + build("b", [20 + i for i in range(m)]) + ["plan " + plan, op] + probe() + ["END"])
        for k in range(n + 2):
            plan = "1" * k + "0"
            for op in ("copy_shallow", "copy_deep", "filter", "sublist 0 %d" % max(n - 1, 0), "to_array", "sort"):
                out.append([hdr()] + build("a", avals(n, 2)) + ["plan " + plan, "a " + op] + probe()[:4] + ["END"])
        for op in ("add_first 5", "add_last 5", "add_at 5 0", "iter n a5 n", "diter n a5 n", "zip n a5:6 n"):
            for plan in ("0", "10"):
                out.append([hdr()] + build("a", avals(n)) + build("b", [20, 21]) + ["plan " + plan, "a " + op] + probe() + ["END"])
    # derived lists of an EMPTY source and of a one-element source, in every pair of allocator families: the blocks of
    # the derived list (observed while it exists: own=) must come from the source's family
    for ma, mb in (("conf", "conf"), ("libc", "libc"), ("conf", "libc"), ("libc", "conf")):
        for vals in ([], [12], [13]):
            for op in ("copy_shallow", "copy_deep", "filter", "sublist 0 0"):
                out.append([hdr(ma, mb)] + build("a", vals) + build("b", [3]) + ["a " + op, "b " + op] + ["END"])
    # both allocator families; a list pair with different families (nodes copied by add_all are requested from the source's allocator)
    for ma, mb in (("libc", "libc"), ("conf", "libc"), ("libc", "conf")):
        out.append([hdr(ma, mb)] + build("a", [1, 2]) + build("b", [3]) + ["a to_array", "a copy_shallow", "b sort", "a remove_all", "b remove_first"] + ["END"])
    # copies made by add_all / add_all_at belong to the destination's family: the ledger must balance for every pair of families
    for ma, mb in (("conf", "libc"), ("libc", "conf")):
        for n in range(3):
            for m in range(1, 4):
                va, vb = avals(n), [20 + i for i in range(m)]
                for op in ("a add_all", "a add_all_at 0", "a add_all_at %d" % n, "b add_all", "b add_all_at %d" % (m // 2)):
                    out.append([hdr(ma, mb)] + build("a", va) + build("b", vb) + [op, "a remove_last", "b remove_first", "a remove_all", "b remove_all_cb"] + probe() + ["END"])
                    for k in range(m + 1):
                        out.append([hdr(ma, mb)] + build("a", va) + build("b", vb) + ["plan " + "1" * k + "0", op, "plan", "a remove_all"] + probe() + ["END"])
                if n >= 1:
                    out.append([hdr(ma, mb)] + build("a", va) + build("b", vb) + ["a zip n a5:6 n r", "a remove_all", "b remove_all"] + ["END"])
    # splice hands nodes of the source's family to the destination: with different families the later free crosses (model and code agree)
    out.append([hdr("conf", "libc")] + build("a", [1, 2]) + build("b", [3]) + ["a splice", "a remove_all", "END"])
    # ---------------------------------------------------------------- random long histories
    n = 250 if quick else 4000
    for _ in range(n):
        ops = []
        L = {"a": [], "b": []}          # exact contents while no fault plan is active (steers indices and iterator programs)
        planned = False
        for _ in range(rng.randint(1, 40)):
            h = rng.choice("ab"); o = "b" if h == "a" else "a"
            r = rng.random()
            bad = rng.random() < 0.12
            sz = len(L[h])
            idx = lambda extra=0: (rng.choice([sz + extra, sz + extra + 1, 2**63, 2**64 - 1]) if bad else rng.randint(0, max(sz - 1 + extra, 0)))
            val = lambda: rng.choice(BIG) if rng.random() < 0.1 else rng.randint(0, 9)
            if r < 0.30:
                op = rng.choice(["add_first %d" % val(), "add_last %d" % val(), "add %d" % val(), "add_at %d %d" % (val(), idx())])
            elif r < 0.50:
                op = rng.choice(["remove_first", "remove_last", "remove_at %d" % idx(), "remove %d" % val()])
            elif r < 0.60:
                op = rng.choice(["replace_at %d %d" % (val(), idx()), "get_at %d" % idx(), "index_of %d" % val(), "contains %d" % val(),
                                 "contains_value %d key" % val(), "to_array", "foreach", "reduce", "size", "get_first", "get_last"])
            elif r < 0.70:
                op = rng.choice(["reverse", "filter_mut", "sort", "sort_in_place val", "sort_in_place key", "remove_all", "remove_all_cb"])
            elif r < 0.85:
                op = rng.choice(["add_all", "add_all_at %d" % idx(1), "splice", "splice_at %d" % idx(1)])
            elif r < 0.92:
                op = rng.choice(["copy_shallow", "copy_deep", "filter", "sublist %d %d" % (idx(), idx())])
            elif planned:
                op = "iter n i p3 n r n"
            else:
                desc = BACKWARD and rng.random() < 0.5
                progs = iter_programs(sz, 4, desc) if sz <= 3 else [["n", "i", "n", "r", "n", "a77", "n", "p78"], ["n", "a5", "n", "n", "r"], ["n", "n", "n", "a6", "p7", "n", "r"]]
                prog = rng.choice(progs)
                op = ("diter " if desc else "iter ") + " ".join(prog)
                L[h] = sim_iter(L[h], prog, desc)
            ops.append("%s %s" % (h, op))
            sim(L, h, o, op.split())
            if rng.random() < 0.03:
                ops.append("plan " + "".join(rng.choice("01") for _ in range(rng.randint(1, 4)))); planned = True
        out.append([hdr()] + ops + ["END"])
    return out

INDEXED_INCL = True      # list: add_all_at / splice_at accept index == size; slist.py sets False

def sim(L, h, o, w):
    """ideal effect of one operation on the python lists (steering only)"""
    l = L[h]; op = w[0]; a = [int(x) for x in w[1:] if x.isdigit()]
    n = len(l)
    if op == "add_first": l.insert(0, a[0])
    elif op in ("add_last", "add"): l.append(a[0])
    elif op == "add_at" and a[1] < n: l.insert(a[1], a[0])
    elif op == "remove_first" and n: l.pop(0)
    elif op == "remove_last" and n: l.pop()
    elif op == "remove_at" and a[0] < n: l.pop(a[0])
    elif op == "remove" and a[0] in l: l.remove(a[0])
    elif op == "replace_at" and a[1] < n: l[a[1]] = a[0]
    elif op == "reverse": l.reverse()
    elif op == "filter_mut": L[h] = [x for x in l if x % 2 == 0]
    elif op == "sort": l.sort()
    elif op == "sort_in_place": l.sort(key=(lambda x: x // 16) if w[-1] == "key" else None)
    elif op in ("remove_all", "remove_all_cb"): L[h] = []
    elif op == "add_all": L[h] = l + L[o]
    elif op == "splice": L[h] = l + L[o]; L[o] = []
    elif op in ("add_all_at", "splice_at") and L[o] and (a[0] <= n if INDEXED_INCL else a[0] < n):
        L[h] = l[:a[0]] + L[o] + l[a[0]:]
        if op == "splice_at": L[o] = []

def sim_iter(l, prog, desc):
    l = list(l); pos = len(l) if desc else 0; last = None
    for t in prog:
        if t == "n":
            if desc and pos > 0: pos -= 1; last = pos
            elif not desc and pos < len(l): last = pos; pos += 1
        elif t == "r" and last is not None:
            l.pop(last); last = None
            if not desc: pos -= 1
        elif t[0] == "a" and last is not None:
            if desc: l.insert(last, int(t[1:]))
            else: l.insert(last + 1, int(t[1:])); pos += 1
        elif t[0] == "p" and last is not None: l[last] = int(t[1:])
    return l
